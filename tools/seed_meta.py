#!/usr/bin/env python3
"""Builds seeded/<id>/meta.json from the sub-agent's meta and my own evaluation."""
import json, os, sys, glob
for d in sorted(glob.glob('/verif/seeded/*/')):
    am = {}
    if os.path.exists(d + 'agent_meta.json'):
        try: am = json.load(open(d + 'agent_meta.json'))
        except Exception: am = {}
    ev = json.load(open(d + 'eval.json')) if os.path.exists(d + 'eval.json') else {}
    old = json.load(open(d + 'meta.json')) if os.path.exists(d + 'meta.json') else {}
    meta = {
        'property': am.get('property') or os.path.basename(d.rstrip('/')).split('-')[0],
        'summary': am.get('summary'),
        'needs_to_manifest': am.get('needs'),
        'author': 'independent sub-agent given only the property text and a scratch worktree',
        'confirmed_by_me': {
            'demo_exit_code_without_change': ev.get('demo_clean_rc'),
            'demo_exit_code_with_change': ev.get('demo_with_change_rc'),
            'repo_unit_tests_with_change': ev.get('tests_with_change'),
            'command': 'tools/seed_eval.sh (pytest tests/core tests/http tests/plugin tests/common minus the two network-only files; demo run in the scratch worktree with and without the change)',
        },
        'checks_run': ev.get('checks_run'),
        'check_output': ev.get('check_output'),
        'notes': old.get('notes', ''),
    }
    json.dump(meta, open(d + 'meta.json', 'w'), indent=1)
    print(os.path.basename(d.rstrip('/')), ev.get('demo_clean_rc'), ev.get('demo_with_change_rc'), (ev.get('check_output') or '').count('exit=1'))
