#!/usr/bin/env python3
"""Regenerates MANIFEST.json from the table below (claimed checks) and properties.jsonl."""
import json, os
V = '/verif'
props = [json.loads(l) for l in open(V + '/properties.jsonl')]

NETMC_NOTE = ('Exhaustive within the stated scenario corpus, packings, deviation kinds and deviation bound d (see '
              'evidence coverage.deviation_bound); real run() loop, real epoll and kernel stream sockets (AF_UNIX), '
              'controlled select()/send()/recv()/connect()/clock. Trusted: CPython, Linux socket/epoll, h11, the harness.')

CLAIMS = {
 'C01': dict(engine='netmc', ref='DESIGN.md §2, §5 C01',
   text='Every environment schedule with <= d deviations (delayed peer action, slow/partial reader, short write, would-block) of every tunnel / HTTP relay scenario (payload alphabet x packings x scaled and full-size buffer thresholds) is executed on the real LocalFdExecutor event loop; client and upstream byte streams are compared for equality with what the peers sent.',
   note=NETMC_NOTE, technique='stateless model checking of the implementation (deviation-bounded exhaustive schedule enumeration over the real event loop)'),
 'C04': dict(engine='netmc', ref='DESIGN.md §2, §5 C04',
   text='Every request sequence of length 1..3 over {GET, POST with Content-Length, chunked POST, GET to another origin/route} in every packing (one request per segment waiting for each response, pipelined, all in one segment, cuts around the request boundary) is run through the forward proxy, the built-in web server (two route plugins) and the reverse proxy (two routes/upstreams) under every schedule with <= d postponed peer actions / slow reads; the client stream is parsed with h11 and must hold exactly one response per request, in order, stamped by the origin/route, method, path and body the request names; every origin must have seen exactly its requests in order.',
   note=NETMC_NOTE + ' Two recorded findings (follow-up request naming a different origin/upstream) are matched structurally, see known_findings.json.', technique='stateless model checking of the implementation (deviation-bounded schedule enumeration) with an independent HTTP parser as oracle'),
 'C05': dict(engine='netmc', ref='DESIGN.md §2, §5 C05', category='model_checking',
   text='Two or three connections share ONE real executor loop (local and remote mode). The adversary connection runs every script of a corpus (malformed and non-UTF-8 requests, truncation at chosen/every byte, client abort/RST/half-close, upstream refuse/timeout/unreachable/DNS failure/early close/garbage, all four proxy roles incl. a second keep-alive request) and, on top, every single injected I/O error (connect/send/recv) and every postponed peer action (d<=1 quick, d<=2 thorough, plus both orders of same-tick task completion); a canary connection started concurrently, 3 turns later and after the adversary, must be served exactly as when alone and run() must not return.',
   note=NETMC_NOTE, technique='stateless model checking of the implementation with exhaustive single/double fault injection at every SUT I/O call'),
 'C08': dict(engine='netmc', ref='DESIGN.md §2, §5 C08',
   text='Configured credentials x request kinds (GET, POST with body, CONNECT, credentials before Host) x a Proxy-Authorization grammar (10 token mutations x 8 schemes x 4 separators x 4 header-name casings, duplicated lines, look-alike headers) x packings (whole, cut inside the header, per byte) x {no plugin, recording plugin loaded after auth} x second request with/without credentials are executed on the real executor. An independent predicate decides accept/reject (ambiguous spellings may go either way); rejected: h11-valid 407 then end-of-stream, empty connect/DNS log, no origin byte, no request hook of the later plugin; accepted: served and no origin ever receives a Proxy-Authorization line on the first or second request.',
   note=NETMC_NOTE + ' d=0 (input and configuration enumeration).', technique='exhaustive small-scope enumeration of inputs and configurations executed on the real event loop, reference predicate + h11 as oracle'),
 'C09': dict(engine='netmc', ref='DESIGN.md §2, §5 C09',
   text='Plugin programs: every list of 1..n recording plugins (n=2 quick, n=3 thorough) loaded through the real flag parser, each plugin carrying one of 12 (hook, behaviour) options over before_upstream_connection / handle_client_request / handle_upstream_chunk / on_access_log / resolve_dns x pass / modify / drop / reject, in every order, with authentication off and on (good and bad credentials), under 8 endings (normal with a follow-up request, client abort before/after the request or response, upstream close on accept / after the response, connect refusal, DNS failure). A reference interpreter of the documented chain predicts per-hook call order and short-circuit, request threading, the connect target, the forwarded request, the rejection response and the client byte stream; access-log chain and connection-close hook must have run exactly once whenever the first request was completely received.',
   note=NETMC_NOTE + ' d=0 (program and history enumeration). A rejection raised in handle_client_request happens after the upstream connection was opened; the oracle requires no request bytes at the origin there, and no connection attempt only for before_upstream_connection rejections.', technique='exhaustive enumeration of plugin programs and connection endings on the real event loop against a reference interpreter'),
 'C12': dict(engine='netmc', ref='DESIGN.md §2, §5 C12',
   text='Route tables (static routes with one or two upstream URLs from a 6-URL alphabet with/without explicit port and path and both schemes, overlapping and disjoint route pairs in both orders, dynamic routes returning a Url or a literal response) x 9 request paths (matching none/one/several routes, query, case) x GET / POST / chunked POST x Host-rewrite off/on are served by the real reverse proxy; every outcome of random.choice is branched. urllib.parse.urlsplit is the independent URL reader: exactly one connection to (host, explicit port or 80/443) of an upstream URL of a matching route, that URL path as request path, method/body/headers preserved, Host rewritten iff enabled, response relayed unmodified; no match => h11-valid 404 and empty connect/DNS log.',
   note=NETMC_NOTE + ' TLS upstreams: only target selection is observed (the peer hangs up before the handshake).', technique='exhaustive enumeration of a finite configuration/input lattice on the real event loop with full branching of the random upstream choice'),
 'C13': dict(engine='netmc', ref='DESIGN.md §2, §5 C13',
   text='Every request path "/"+t1..tn, n <= L (L=4 over 11 tokens quick; L=6 over 9 tokens thorough) over {a, b.txt, /, ., .., %2e%2e, %2f, ?x, ?../, root-evil, secret.txt} plus hand-written traversal spellings, with compression on and off, is requested from the real static server over a real directory tree holding sentinel files inside and just outside the root (incl. a prefix sibling directory). 200 is allowed only for a path that stays inside the root and only with exactly that file (after gunzip); any other origin-form path must get an h11-valid 404; no response may contain an outside sentinel; plain existing inside files must be served.',
   note=NETMC_NOTE + ' d=0 (input enumeration). Percent-encodings are not decoded by the server, so they name literal files.', technique='bounded-exhaustive input enumeration (all token sequences up to length L) on the real event loop against file-system ground truth'),
 'C14': dict(engine='netmc', ref='DESIGN.md §3, §5 C14',
   text='Request-targets from a bounded URI grammar (11 hosts: registered names incl. punycode, UTF-8 and upper case, IPv4, IPv6 in four spellings; 6 ports; userinfo absent / user:pass / user / user: ; 6 paths incl. reserved characters) in absolute and authority form, plus origin-form paths and 17 damaged targets. Part A runs every target through the real HttpParser/Url and compares host, port and path with urllib.parse.urlsplit (defaults 80 / 443 for CONNECT). Part B sends each target through the real forward proxy: exactly one outbound connection to the un-bracketed host and that port (literal => direct connect with the right address family and no name resolution; name => one resolution of exactly that name), origin request line carries the origin-form path; damaged targets must not reach anybody.',
   note=NETMC_NOTE + ' d=0 (input enumeration).', technique='exhaustive enumeration of a bounded URI grammar on the real parser and the real event loop, urlsplit as reference'),
 'C20': dict(engine='netmc', ref='DESIGN.md §2, §5 C20',
   text='Timeouts {1,2 (,5)} x reaper phase offsets x timed traces (silence, half a request, after a complete exchange, client activity resuming one tick / two ticks / half a timeout before the deadline, three keep-alives in a row each just inside the window, tunnel with upstream-to-client traffic with and without client activity, 300 KB of output pending across the deadline over 4 KiB kernel buffers) are run in threadless mode (the real tick-driven reaper of _run_forever) and threaded mode (the per-iteration check of run()) under a virtual clock that only select() timeouts advance. For every execution: the SUT closes the client socket strictly more than the timeout after the last client-side read/write, at most timeout + cleanup period + slack later, and a connection with pending output is never cut (all bytes arrive).',
   note=NETMC_NOTE + ' d=0; event times are scenario parameters placed around the threshold. Closing at exactly the timeout is not distinguished from closing just after it.', technique='exhaustive enumeration of timed traces under a virtual clock on the real event loop (timed-automaton style threshold placement)'),
 'C10': dict(engine='netmc', ref='DESIGN.md §2, §5 C10', category='model_checking',
   text='For every history of the C05 corpus (all roles, every abort kind, connect failures, protocol errors) once and three times in a row, for idle-timeout histories under the virtual clock, and for every single injected I/O error / postponed peer action on top, the state at quiescence (executor still running, after gc.collect()) is inspected: /proc/self/fd minus harness descriptors equals the snapshot before the first connection, and works / registered events / unfinished tasks / selector map are back to empty.',
   note=NETMC_NOTE + ' A socket closed only by the cyclic GC counts as released.', technique='stateless model checking of the implementation with fault enumeration and a kernel-object census at quiescence'),
 'C07': dict(engine='netmc', ref='DESIGN.md §2, §5 C07',
   text='Every environment schedule with <= d deviations (slow/partial client reads, short writes, would-block, delayed upstream close) of every scenario in which the proxy closes after producing output (400/404/407/502, static files up to 200 KiB over 4 KiB kernel buffers, relayed response followed by upstream close, early upstream response with failing upstream write) is executed in local, remote and threaded mode; bytes read by the client up to end-of-stream must equal the reference output (h11-valid) / everything the proxy read from the upstream, and the close must follow the last accepted byte within 4 loop iterations.',
   note=NETMC_NOTE, technique='stateless model checking of the implementation (deviation-bounded exhaustive schedule enumeration, three execution modes)'),
 'C02': dict(engine='netmc', ref='DESIGN.md §2, §5 C02',
   text='Every request of a structured corpus (6 methods x 5 target forms x header sets incl. mixed case, OWS, empty values, hop-by-hop and proxy headers x framing none/Content-Length/chunked incl. empty, binary and framing-lookalike bodies, all chunk layouts of short bodies, hex forms and chunk extensions) is sent through the real forward proxy as first and as second request of a connection, with and without an operator-disabled header, under packings whole / single cuts / per byte; the origin parses what arrives with h11 and method, origin-form target, version, header multiset (minus proxy credentials, Proxy-Connection, disabled names; plus Via), single consistent framing and decoded body are compared with generator ground truth. All segmentations of the parser itself are covered by C03.',
   note=NETMC_NOTE + ' No schedule deviations here (d=0): the quantifier is over inputs and segmentations.', technique='exhaustive small-scope input enumeration executed on the real event loop, independent parser (h11) as oracle'),
 'C06': dict(engine='netmc', ref='DESIGN.md §2, §5 C06',
   text='Part 1: every sequence of <= L tokens (L=3 quick, L=4 thorough: 19^4 sequences) over a 19-token alphabet of methods, targets, versions, CRLF, length/encoding headers, garbage and non-UTF-8 bytes, plus request-shaped longer sequences and all truncations/concatenations of four valid requests, each under packings whole / per token / per byte and configurations proxy / proxy+web, is executed on the real executor; the outcome must be waiting (only if h11 saw no complete request), served, clean close, or exactly valid response(s) with end-of-stream after any error status. Part 2: every proxy-generated response over an argument grid (canned packets, okResponse, redirects, HttpRequestRejected, 407/502, websocket handshake, static files) is parsed by h11 and must be complete with no bytes beyond its framing.',
   note=NETMC_NOTE + ' d=0 (input enumeration). Bodies for 204/304 rejections are excluded as caller error.', technique='bounded-exhaustive input enumeration (all token sequences up to length L) executed on the real event loop, h11 as oracle'),
 'C03': dict(engine='segmc', ref='DESIGN.md §1, §5 C03',
   text='All segmentations (every subset of cut positions) of every message of a structured small-scope corpus are explored on the real HttpParser/ChunkParser by explicit-state search with state merging; completion timing, fields, body and remainder are checked in every reachable state against generator ground truth.',
   note='Exhaustive within the corpus (message shapes, small bodies, all chunk layouts) -- not over all byte strings. Trusted: CPython, deepcopy state cloning, the generator ground truth.',
   technique='explicit-state model checking of the implementation (BFS over all segmentations with canonical-state merging)'),
}
ENGINES = [
 dict(name='segmc', path='mc/segmc.py', kind_free_text='explicit-state BFS over (offset, canonical parser state): all 2^(n-1) segmentations of each corpus message on the real parser'),
 dict(name='netmc', path='mc/netmc.py', kind_free_text='stateless deviation-bounded DFS over environment schedules; each execution runs the real executor run() loop over real sockets/epoll under a controlled selector, socket layer and clock'),
 dict(name='seqmc', path='mc/seqmc.py', kind_free_text='BFS over operation histories on fresh real objects with canonical-state dedup and a reference model'),
 dict(name='cfgmc', path='mc/cfgmc.py', kind_free_text='exhaustive enumeration of a finite configuration lattice, each point run live to quiescence'),
]
REASONS = {}
man = {
 'version': 1,
 'setup_cmd': "mkdir -p /verif/evidence /verif/replays && /venv/bin/python -c \"import h11, sys; sys.path.insert(0,'/repo'); import proxy\"",
 'hooks': {'guard': 'PROXY_PY_VERIF', 'enable': 'none needed: all seams are module-namespace patches applied by the harness at import time (no source hooks in /repo)',
           'baseline_off_cmd': 'cd /repo && /venv/bin/python -m pytest -ra -q -p no:cacheprovider --timeout=900 --continue-on-collection-errors',
           'source_commits': [], 'add_only': True},
 'engines': [], 'checks': [], 'not_applicable': [],
 'notes': 'All checks run real proxy.py code imported from /repo\'s working tree (pure Python: re-import is the rebuild). Repairs of genuine defects are separate fix: commits in /repo, logged in known_findings.json.',
}
for e in ENGINES:
    if os.path.exists(os.path.join(V, e['path'])):
        e = dict(e); e['serves_properties'] = sorted(k for k, c in CLAIMS.items() if c['engine'] == e['name'])
        man['engines'].append(e)
for p in props:
    i = p['id']
    if i in CLAIMS and os.path.exists('%s/mc/props/%s.py' % (V, i.lower())):
        c = CLAIMS[i]
        man['checks'].append({
          'property_id': i, 'quick_cmd': './check %s --tier quick' % i, 'thorough_cmd': './check %s --tier thorough' % i,
          'evidence_file': 'evidence/%s.json' % i, 'replay_cmd_template': './check %s --replay {path}' % i,
          'engine': c['engine'],
          'level_claimed': {'category': c.get('category', 'model_checking'), 'text': c['text'], 'design_ref': c['ref']},
          'level_note': c['note'], 'technique': c['technique']})
    else:
        man['not_applicable'].append({'property_id': i, 'reason': REASONS.get(i, 'check under construction in this session (DESIGN.md §10 build order); not claimed until its check is committed')})
json.dump(man, open(V + '/MANIFEST.json', 'w'), indent=1)
print('claimed:', [c['property_id'] for c in man['checks']])
