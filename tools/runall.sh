#!/bin/bash
# usage: tools/runall.sh [tier] [props...]  -- runs checks, prints one line each
tier=${1:-quick}; shift
props=${@:-$(python3 -c "import json;print(' '.join(c['property_id'] for c in json.load(open('/verif/MANIFEST.json'))['checks']))")}
rc=0
for p in $props; do
  out=$(cd /verif && ./check $p --tier $tier 2>&1); r=$?
  echo "$out" | grep -E "VIOLATION|KNOWN-FINDING|HARNESS|WARNING|Traceback|Error" | cut -c1-220 | head -6
  echo "$out" | tail -1 | sed "s/^/[exit $r] /"
  [ $r -ne 0 ] && rc=1
done
exit $rc
