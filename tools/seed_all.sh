#!/bin/bash
# Re-runs every stored seed through the checks named in its meta.json (first word = tier, rest = properties).
# Prints one line per seed: CAUGHT / MISSED / DOES-NOT-APPLY.
cd /verif
for d in seeded/*/; do
  name=$(basename $d)
  props=$(python3 -c "import json;print(' '.join(json.load(open('$d/meta.json'))['checks_run'].split()[1:]))")
  out=$(tools/mutant.sh $d/patch.diff quick $props 2>&1)
  if echo "$out" | grep -q "PATCH DOES NOT APPLY"; then echo "DOES-NOT-APPLY $name"; continue; fi
  if echo "$out" | grep -qE "exit=1$"; then echo "CAUGHT $name ($(echo "$out" | grep -cE 'exit=1$') of $(echo $props | wc -w) checks)"; else echo "MISSED $name"; fi
done
