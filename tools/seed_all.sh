#!/bin/bash
# Re-runs every stored seed through the checks named in its meta.json (first word = tier, rest = properties).
# Prints one line per seed: CAUGHT / MISSED / DOES-NOT-APPLY.
# Optional argument: a glob restricting the seeds (e.g. 'C0[57]*'); VERIF_OWN_ONLY=1 runs only the seed's own property.
cd /verif
for d in seeded/${1:-*}/; do
  name=$(basename $d)
  props=$(python3 -c "import json;print(' '.join(json.load(open('$d/meta.json'))['checks_run'].split()[1:]))")
  [ -n "${VERIF_OWN_ONLY:-}" ] && props=${name:0:3}
  out=$(VERIF_NO_EVIDENCE=1 tools/mutant.sh $d/patch.diff quick $props 2>&1)
  if echo "$out" | grep -q "PATCH DOES NOT APPLY"; then echo "DOES-NOT-APPLY $name"; continue; fi
  if echo "$out" | grep -qE "exit=1$"; then echo "CAUGHT $name ($(echo "$out" | grep -cE 'exit=1$') of $(echo $props | wc -w) checks)"; else echo "MISSED $name"; fi
done
