#!/bin/bash
# usage: tools/mutant.sh <patch.diff> <tier> <PROP>...   -- run checks against a scratch worktree with the patch applied
set -u
patch=$(realpath "$1"); tier=$2; shift 2
d=$(mktemp -d /tmp/mutwt-XXXXXX); rmdir "$d"
git -C /repo worktree add -q --detach "$d" HEAD || exit 3
if ! git -C "$d" apply "$patch"; then echo "PATCH DOES NOT APPLY"; git -C /repo worktree remove --force "$d"; exit 3; fi
rc=0
for p in "$@"; do
  out=$(cd /verif && VERIF_REPO="$d" VERIF_NO_EVIDENCE=1 ./check "$p" --tier "$tier" 2>&1); r=$?
  echo "== $p exit=$r"; echo "$out" | grep -E "VIOLATION|KNOWN-FINDING|HARNESS|tier=" | head -8
  [ $r -ne 0 ] && rc=1
done
git -C /repo worktree remove --force "$d"
exit $rc
