#!/bin/bash
# usage: tools/seed_eval.sh <worktree-id> <seed-name> <tier> <PROP>...
# Confirms a sub-agent's seeded change (tests pass with it, demo fails with it / passes without it),
# stores it under /verif/seeded/<seed-name>/ and runs the named checks against it.
set -u
id=$1; name=$2; tier=$3; shift 3
wt=/tmp/seedwt/$id
dst=/verif/seeded/$name
mkdir -p $dst
cp $wt/_seed/patch.diff $dst/patch.diff
cp $wt/_seed/demo.py $dst/demo.py
cp $wt/_seed/meta.json $dst/agent_meta.json 2>/dev/null
# fresh scratch worktree at the same path the demo expects? demos hardcode $wt, so evaluate in place:
cd $wt
# NB: `git stash` is shared between worktrees (sub-agents collided on it) -- use apply -R / apply instead
git checkout -q -- proxy; git apply _seed/patch.diff || echo "PATCH DOES NOT APPLY IN WORKTREE"
git apply -R _seed/patch.diff; clean_rc=$( /venv/bin/python _seed/demo.py >/tmp/seed_demo_clean.log 2>&1; echo $? )
git apply _seed/patch.diff; mut_rc=$( /venv/bin/python _seed/demo.py >/tmp/seed_demo_mut.log 2>&1; echo $? )
echo "demo: clean rc=$clean_rc  with-change rc=$mut_rc"
tail -2 /tmp/seed_demo_mut.log
tests=$( /venv/bin/python -m pytest -q -p no:cacheprovider tests/core tests/http tests/plugin tests/common --timeout=300 --deselect tests/http/proxy/test_http2.py --deselect tests/http/test_client.py 2>&1 | tail -1 )
echo "tests with change: $tests"
cd /verif
out=$(tools/mutant.sh $dst/patch.diff $tier "$@" 2>&1)
echo "$out" | grep -E "^==|tier=|VIOLATION|PATCH" | head -20
echo "{\"demo_clean_rc\": $clean_rc, \"demo_with_change_rc\": $mut_rc, \"tests_with_change\": \"$tests\", \"checks_run\": \"$tier $*\", \"check_output\": $(echo "$out" | grep -E "^==|tier=" | python3 -c 'import sys,json; print(json.dumps(sys.stdin.read()))')}" > $dst/eval.json
