"""thrmc: exhaustive interleaving of a few real threads at explicit scheduling points
(baton scheduler: exactly one thread runs at a time; every other thread is parked at a point)."""
import threading


class Deadlock(Exception):
    pass


class Sched:
    def __init__(self, prefix=()):
        self.prefix = list(prefix)
        self.choices = []
        self.points = []            # number of enabled threads at each decision
        self.threads = []           # (name, thread, state dict)
        self.trace = []
        self._main = threading.Semaphore(0)
        self._tls = threading.local()
        self.failed = None

    # -- called from worker threads
    def point(self, label, enabled=None):
        st = self._tls.st
        st['label'] = label
        st['enabled'] = enabled
        st['parked'] = True
        self._main.release()
        st['sem'].acquire()
        st['parked'] = False

    def spawn(self, name, fn):
        st = {'name': name, 'sem': threading.Semaphore(0), 'parked': False, 'done': False, 'label': None,
              'enabled': None, 'exc': None}

        def body():
            self._tls.st = st
            self.point('start')
            try:
                fn()
            except BaseException as e:  # noqa
                st['exc'] = e
            st['done'] = True
            self._main.release()
        t = threading.Thread(target=body, daemon=True)
        self.threads.append((name, t, st))
        t.start()
        self._main.acquire()        # wait until parked at 'start'
        # running from 'start' to the first real point touches nothing shared: not a decision
        st['sem'].release()
        self._main.acquire()

    def run(self):
        """Drive to completion; returns list of (name, exception) for threads that raised."""
        while True:
            live = [st for (_n, _t, st) in self.threads if not st['done']]
            if not live:
                break
            en = [st for st in live if st['enabled'] is None or st['enabled']()]
            if not en:
                self.failed = 'deadlock: ' + ', '.join('%s@%s' % (st['name'], st['label']) for st in live)
                # unblock everything so that the process can clean up
                for st in live:
                    st['enabled'] = None
                raise Deadlock(self.failed)
            i = len(self.choices)
            if len(en) > 1:
                c = self.prefix[i] if i < len(self.prefix) else 0
                if c >= len(en):
                    raise RuntimeError('replay divergence')
                self.points.append(len(en))
                self.choices.append(c)
            else:
                c = 0
            st = en[c]
            self.trace.append((st['name'], st['label']))
            st['sem'].release()
            self._main.acquire()    # until it parks again or finishes
        return [(st['name'], st['exc']) for (_n, _t, st) in self.threads if st['exc'] is not None]


class Lock:
    """Lock whose acquire/release are scheduling points (passed INTO the code under test)."""

    def __init__(self, sched):
        self.s = sched
        self.held = False

    def acquire(self, *a, **k):
        self.s.point('lock.acquire', enabled=lambda: not self.held)
        self.held = True
        return True

    def release(self):
        self.s.point('lock.release')
        self.held = False

    def __enter__(self):
        self.acquire()
        return self

    def __exit__(self, *a):
        self.release()
        return False


def explore(build, check, cap=None):
    """build(sched) sets up threads; check(sched, errors) -> list of violations.
    Enumerates ALL interleavings (DFS over every decision)."""
    stack = [()]
    n = 0
    out = []
    decisions = 0
    traces = set()
    while stack:
        prefix = stack.pop()
        s = Sched(prefix)
        ctx = build(s)
        try:
            errs = s.run()
            dead = None
        except Deadlock as e:
            errs, dead = [], str(e)
        n += 1
        decisions += len(s.points)
        traces.add(tuple(s.trace))
        for v in check(s, ctx, errs, dead) or []:
            out.append((list(s.choices), v, list(s.trace)))
        for i in range(len(prefix), len(s.points)):
            for alt in range(1, s.points[i]):
                stack.append(tuple(s.choices[:i]) + (alt,))
        if cap and n >= cap:
            break
    return {'executions': n, 'decisions': decisions, 'distinct_traces': len(traces), 'capped': bool(cap and n >= cap)}, out
