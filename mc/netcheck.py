"""Driver shared by all netmc-based checks: parallel exploration, double-replay of
violations, determinism self-test, vacuity counters, evidence."""
import json
from . import common, netmc

_SCNS = []
_CHECK = None
_BOUND = 1
_CAP = None
_DET_EVERY = 1
_SEQ = 0


def _unit(i):
    global _SEQ
    _SEQ += 1
    scn = _SCNS[i]
    bound = scn.features.get('_bound', _BOUND)
    st, viols = netmc.explore(scn, bound, _CHECK, cap=_CAP)
    # determinism self-test: the default schedule twice, identical traces
    det_ok = True
    a = None
    if i % _DET_EVERY == 0:
        a = netmc.execute(scn, ())
        b = netmc.execute(scn, ())
        det_ok = a.trace_hash() == b.trace_hash()
    confirmed = []
    unrepro = 0
    seen_sym = {}
    for choices, v in viols:
        key = json.dumps(common.jsonable(v.get('features', {})), sort_keys=True)
        ndev = sum(1 for c in choices if c)
        # keep, per violation class, the executions with the fewest deviations -- up to three with DISTINCT
        # deviation counts: state carried over inside a long-lived worker (e.g. a module-level object the SUT
        # damaged in an earlier execution) can make a later, deviation-free execution show the same symptom;
        # that one is the "smallest" but will not reproduce in a fresh process, the one that did the damage will
        ent = seen_sym.setdefault(key, {'count': 0, 'cands': {}})
        ent['count'] += 1
        if ndev not in ent['cands'] and (len(ent['cands']) < 3 or ndev < max(ent['cands'])):
            ent['cands'][ndev] = (choices, v)
            if len(ent['cands']) > 3:
                del ent['cands'][max(ent['cands'])]
    for key, ent in seen_sym.items():
        any_ok = False
        for rank, ndev in enumerate(sorted(ent['cands'])):
            choices, v = ent['cands'][ndev]
            ok = True
            kinds = []
            for _ in range(2):
                w = netmc.execute(scn, netmc.strip(choices))
                kinds = sorted(set(k for (_i, k, _c, _m) in w.deviations()))
                again = _CHECK(w) or []
                if not any(json.dumps(common.jsonable(x.get('features', {})), sort_keys=True) == key for x in again):
                    ok = False
            if ok:
                any_ok = True
                v = dict(v)
                v['instances'] = ent['count']
                v['_dev_kinds'] = ''.join(kinds)
                v['_class'] = key
                v['_rank'] = rank
                confirmed.append((netmc.strip(choices), v))
        if not any_ok:
            unrepro += 1
    sample = None
    if a is not None and i % 7 == 0:
        sample = {'scenario': scn.name, 'default_trace': [list(map(str, t)) for t in a.trace[:12]],
                  'choice_points': len(a.points)}
    return {
        'i': i, 'name': scn.name, 'executions': st.executions, 'choice_points': st.choice_points, 'turns': st.turns,
        'dev_by_kind': st.deviations_by_kind, 'traces': len(st.traces), 'no_q': st.no_quiescence,
        'capped': st.capped, 'det_ok': det_ok, 'confirmed': confirmed, 'unrepro': unrepro,
        'max_points': st.max_points, 'sample': sample, 'bound': bound, 'pid': __import__('os').getpid(), 'seq': _SEQ,
    }


def run(prop, tier, scenarios, check, bound, describe, cap=None, rule='', assumptions=(), det_every=1, flagsets=None):
    """scenarios: list of netmc.Scenario; check(world) -> [ {symptom, features, detail} ]."""
    global _SCNS, _CHECK, _BOUND, _CAP, _DET_EVERY
    netmc.install()
    _SCNS, _CHECK, _BOUND, _CAP, _DET_EVERY = scenarios, check, bound, cap, det_every
    rep = common.Report(prop, tier)
    # warm the flag cache in the parent so that workers inherit it
    if flagsets is not None:
        for fa, fo in flagsets:
            netmc.make_flags(fa, **fo)
    else:
        for s in _SCNS:
            netmc.make_flags(s.flags_args, **s.flags_opts)
    dev = {}
    hist = {}       # worker pid -> [(sequence number, scenario index)]: what each long-lived worker ran, in order
    where = {}      # scenario index -> (pid, sequence number)
    traces = 0
    nondet = []
    unrepro = 0
    capped = 0
    noq = 0
    maxp = 0
    pending = []
    order = range(len(_SCNS)) if flagsets is not None else sorted(range(len(_SCNS)), key=lambda i: -len(_SCNS[i].kinds) * 1000 - i)
    for r in common.pmap(_unit, order, chunksize=(64 if flagsets is not None else 1)):
        rep.add(traces_validated_against_impl=r['executions'], states=r['traces'], transitions=r['turns'], choice_points=r['choice_points'])
        for k, v in r['dev_by_kind'].items():
            dev[k] = dev.get(k, 0) + v
        traces += r['traces']
        if not r['det_ok']:
            nondet.append(r['name'])
        unrepro += r['unrepro']
        capped += r['capped']
        noq += r['no_q']
        maxp = max(maxp, r['max_points'])
        if r['sample']:
            rep.sample(r['sample'])
        hist.setdefault(r['pid'], []).append((r['seq'], r['i']))
        where[r['i']] = (r['pid'], r['seq'])
        for choices, v in r['confirmed']:
            pending.append((r['i'], choices, v))
    # A violation must also reproduce in a FRESH process: workers are long-lived and run thousands of executions
    # in one interpreter, so state that leaks between executions (in the SUT's modules or in the harness) can
    # fake -- or hide -- a failure.  A few candidates are re-executed from their recorded choices in a new
    # interpreter; if none of them fails there, nothing is reported (counted in the evidence instead).
    fresh_ok = fresh_bad = 0
    # group the candidates by (scenario, violation class); within a group they are alternatives (fewest deviations first)
    groups = {}
    for (i, choices, v) in pending:
        groups.setdefault((i, v.get('_class')), []).append((v.get('_rank', 0), i, choices, v))
    glist = [sorted(g, key=lambda t: t[0]) for _k, g in sorted(groups.items(), key=lambda kv: (kv[0][0], str(kv[0][1])))]
    n_cand = len(glist)
    kept = []
    from concurrent.futures import ThreadPoolExecutor
    LIMIT = 36
    head = glist[:LIMIT]
    winner = [None] * len(head)
    for rnd in range(3):
        todo = [gi for gi, g in enumerate(head) if winner[gi] is None and rnd < len(g)]
        if not todo:
            break
        with ThreadPoolExecutor(max_workers=6) as tp:
            verdicts = list(tp.map(lambda gi: _fresh_confirm(check, tier, _SCNS[head[gi][rnd][1]].name, head[gi][rnd][2], head[gi][rnd][3]), todo))
        for gi, ok in zip(todo, verdicts):
            if ok:
                winner[gi] = head[gi][rnd]
    # what is left may need the HISTORY of executions before it (a module-level object of the SUT damaged by an
    # earlier execution of the same scenario): explore that scenario once more, from scratch, in a new interpreter
    left = [gi for gi in range(len(head)) if winner[gi] is None][:12]
    if left:
        def _again(gi):
            _r, i, choices, v = head[gi][0]
            b = _SCNS[i].features.get('_bound', bound)
            return _fresh_confirm(check, tier, _SCNS[i].name, choices, v, explore_bound=b)
        with ThreadPoolExecutor(max_workers=6) as tp:
            found = list(tp.map(_again, left))
        for gi, ch in zip(left, found):
            if ch is not None:
                _r, i, _c, v = head[gi][0]
                v = dict(v)
                v['detail'] = {'needs_history': 'shows when the scenario is explored from a fresh interpreter (executions before this one '
                                                'changed process-wide state of the proxy); choices = first execution showing it',
                               'detail': v.get('detail')}
                v.pop('_dev_kinds', None)
                winner[gi] = (0, i, ch, v)
    # ... or the history of OTHER scenarios the same worker ran before (state the proxy keeps across connections:
    # caches, shared default objects): replay, in a new interpreter, what that worker had run up to then, in its
    # order, then explore the scenario.  A violation that needs such a history is as real as any other -- in
    # production the earlier connections are simply earlier connections of the same process.
    left = [gi for gi in range(len(head)) if winner[gi] is None][:6]
    if left:
        def _with_history(gi):
            _r, i, choices, v = head[gi][0]
            pid, seq = where.get(i, (None, None))
            before = [j for (sq, j) in sorted(hist.get(pid, [])) if sq < seq]
            b = _SCNS[i].features.get('_bound', bound)
            return _fresh_confirm(check, tier, _SCNS[i].name, choices, v, explore_bound=b, history=before, index=i, total=len(_SCNS))
        with ThreadPoolExecutor(max_workers=6) as tp:
            found = list(tp.map(_with_history, left))
        for gi, ch in zip(left, found):
            if ch is not None:
                _r, i, _c, v = head[gi][0]
                v = dict(v)
                v['detail'] = {'needs_history': 'shows after the scenarios the same worker process had run before (state the proxy keeps '
                                                'across connections); replay = those scenarios in order, then this one',
                               'earlier_scenarios': ch.get('history_names', [])[-12:], 'detail': v.get('detail')}
                v.pop('_dev_kinds', None)
                winner[gi] = (0, i, ch['choices'], v)
    for gi, g in enumerate(head):
        if winner[gi] is not None:
            fresh_ok += 1
            kept.append(winner[gi][1:])
        else:
            fresh_bad += 1
    for g in glist[LIMIT:]:
        # beyond the limit: kept (first alternative) iff the fresh process confirmed at least one class
        if fresh_ok:
            kept.append(g[0][1:])
    rep.add(violation_candidates=n_cand, candidates_confirmed_in_a_fresh_process=fresh_ok,
            candidates_not_reproduced_in_a_fresh_process=fresh_bad)
    if fresh_bad:
        print('WARNING: %d of %d violation candidate(s) found in the worker processes did not fail when re-executed in a '
              'fresh process (not reported)' % (fresh_bad, n_cand))
    pending = kept
    for (i, choices, v) in pending:
        scn = _SCNS[i]
        feats = dict(scn.features)
        feats = {k: x for k, x in feats.items() if not k.startswith('_')}
        feats.update(v.get('features', {}))
        feats['symptom'] = v['symptom']
        feats['deviation_kinds'] = v['_dev_kinds'] if '_dev_kinds' in v else ''.join(sorted(set(
            k for k in _dev_kinds(scn, choices))))
        rep.violation(feats, {'scenario': scn.name, 'choices': list(choices), 'detail': v.get('detail'),
                              'instances': v.get('instances')})
    rep.add(scenarios=len(_SCNS), deviation_bound=bound, deviations_applied_by_kind=dev,
            distinct_sut_io_traces=traces, unreproducible=unrepro, capped_scenarios=capped,
            executions_hitting_horizon=noq, max_choice_points_in_one_execution=maxp,
            nondeterministic_scenarios=nondet,
            rule=rule or ('every scenario of the corpus x every environment schedule with <= bound deviations; '
                          'states = distinct SUT-side I/O traces, transitions = event-loop iterations (environment turn + real select) executed, '
                          'traces_validated_against_impl = executions of the real run() loop'))
    if capped:
        rep.coverage['exhaustive'] = False
    for a in assumptions:
        rep.assumptions.append(a)
    if nondet:
        print('HARNESS-ERROR: nondeterministic default trace in scenarios: %s' % nondet[:5])
    if unrepro:
        print('WARNING: %d violation classes did not reproduce on replay (not reported)' % unrepro)
    rc = rep.finish()
    if nondet and rc == 0:
        return 2
    return rc


def _fresh_confirm(check, tier, name, choices, v, explore_bound=None, history=None, index=None, total=None):
    """Re-execute one recorded failure in a new interpreter; True iff the same symptom shows there.
    With explore_bound: explore the whole scenario (<= bound deviations) in the new interpreter instead and return the
    choice list of the first execution showing the symptom (or None) -- for failures that need the history of
    executions before them (the SUT damaged a module-level object earlier in the same process)."""
    import os
    import subprocess
    import sys
    env = dict(os.environ)
    req = {'module': check.__module__, 'check': check.__name__, 'tier': tier, 'name': name,
           'choices': list(choices), 'symptom': v['symptom'], 'explore_bound': explore_bound}
    hpath = None
    if history is not None:
        import tempfile
        fd, hpath = tempfile.mkstemp(prefix='history-', suffix='.json', dir=netmc.scratch_dir())
        with os.fdopen(fd, 'w') as fh:
            json.dump({'history': history, 'index': index, 'total': total}, fh)
        req['history_file'] = hpath
    env['VERIF_CONFIRM'] = json.dumps(req)
    env['PYTHONHASHSEED'] = '0'
    # one execution, alone in its process: 30 s of real time is ample (normally ~2 ms), and a candidate that
    # hangs or spins must not take minutes to say so again
    env['VERIF_WATCHDOG_S'] = '30'
    code = 'import sys; sys.path.insert(0, %r); from mc import netcheck; sys.exit(netcheck.confirm_entry())' % common.VERIF
    try:
        p = subprocess.run([sys.executable, '-c', code], env=env, cwd=common.VERIF, capture_output=True, timeout=900)
    except subprocess.TimeoutExpired:
        return None if explore_bound is not None else True         # cannot tell: keep a plain candidate
    if hpath:
        try:
            os.unlink(hpath)
        except OSError:
            pass
    if explore_bound is not None:
        if p.returncode != 0:
            return None
        for line in p.stdout.decode('utf-8', 'replace').splitlines():
            if line.startswith('CHOICES '):
                got = json.loads(line[8:])
                return got if history is not None else got['choices']
        return None
    if p.returncode not in (0, 3):
        return True         # the confirmation itself failed to run: keep the candidate
    return p.returncode == 0


def confirm_entry():
    import importlib
    import os
    a = json.loads(os.environ['VERIF_CONFIRM'])
    common.bind_repo()
    mod = importlib.import_module(a['module'])
    scn = None
    sources = []
    for t in (a['tier'], 'thorough', 'quick'):
        sources.append(lambda t=t: mod.scenarios(t))
    if hasattr(mod, 'thorough_scenarios'):
        sources.insert(1, mod.thorough_scenarios)
    for src in sources:
        try:
            coll = src()
        except Exception:   # noqa
            continue
        if hasattr(coll, 'by_name'):
            scn = coll.by_name(a['name'])
        else:
            scn = next((x for x in coll if x.name == a['name']), None)
        if scn is not None:
            break
    if scn is None:
        return 4
    netmc.install()
    if a.get('explore_bound') is not None:
        names = []
        if a.get('history_file'):
            h = json.load(open(a['history_file']))
            if len(coll) != h['total'] or coll[h['index']].name != a['name']:
                return 4        # the collection is not the one the workers indexed
            budget = 40000
            for j in h['history']:
                pj = coll[j]
                bj = pj.features.get('_bound', a['explore_bound'])
                if bj and budget > 0:
                    stj, _v = netmc.explore(pj, bj, getattr(mod, a['check']), cap=2000)
                    budget -= stj.executions
                else:
                    netmc.execute(pj, ())
                names.append(pj.name)
        _st, viols = netmc.explore(scn, a['explore_bound'], getattr(mod, a['check']))
        for choices, x in viols:
            if x.get('symptom') == a['symptom']:
                print('CHOICES ' + json.dumps({'choices': list(netmc.strip(choices)), 'history_names': names[-12:]}))
                return 0
        return 3
    w = netmc.execute(scn, a['choices'])
    out = getattr(mod, a['check'])(w) or []
    return 0 if any(x.get('symptom') == a['symptom'] for x in out) else 3


def _dev_kinds(scn, choices):
    w = netmc.execute(scn, choices)
    return [k for (_i, k, _c, _m) in w.deviations()]


def replay(path, scenarios, check):
    body = json.load(open(path))
    r = body['replay']
    name = r['scenario']
    scn = [s for s in scenarios if s.name == name]
    if not scn:
        print('unknown scenario', name)
        return 2
    w = netmc.execute(scn[0], r['choices'])
    for t in w.trace:
        print('  ', t)
    print('deviations:', w.deviations())
    for c in w.clients:
        print(c.name, 'rx=', bytes(c.rx)[:300], c.events)
    for o in w.origin_conns:
        print(o.name, o.addr, 'rx=', bytes(o.rx)[:300], o.events)
    print('died=%s no_quiescence=%s stuck=%s' % (w.died, w.no_quiescence, w.stuck))
    vs = check(w)
    print('verdict:', vs)
    return 1 if vs else 0
