"""Driver shared by all netmc-based checks: parallel exploration, double-replay of
violations, determinism self-test, vacuity counters, evidence."""
import json
from . import common, netmc

_SCNS = []
_CHECK = None
_BOUND = 1
_CAP = None
_DET_EVERY = 1


def _unit(i):
    scn = _SCNS[i]
    bound = scn.features.get('_bound', _BOUND)
    st, viols = netmc.explore(scn, bound, _CHECK, cap=_CAP)
    # determinism self-test: the default schedule twice, identical traces
    det_ok = True
    a = None
    if i % _DET_EVERY == 0:
        a = netmc.execute(scn, ())
        b = netmc.execute(scn, ())
        det_ok = a.trace_hash() == b.trace_hash()
    confirmed = []
    unrepro = 0
    seen_sym = {}
    for choices, v in viols:
        key = json.dumps(common.jsonable(v.get('features', {})), sort_keys=True)
        ndev = sum(1 for c in choices if c)
        # keep, per violation class, the execution with the fewest deviations
        if key in seen_sym and seen_sym[key][0] <= ndev:
            seen_sym[key][3] += 1
            continue
        seen_sym[key] = [ndev, choices, v, (seen_sym[key][3] + 1) if key in seen_sym else 1]
    for key, (ndev, choices, v, count) in seen_sym.items():
        ok = True
        kinds = []
        for _ in range(2):
            w = netmc.execute(scn, netmc.strip(choices))
            kinds = sorted(set(k for (_i, k, _c, _m) in w.deviations()))
            again = _CHECK(w) or []
            if not any(json.dumps(common.jsonable(x.get('features', {})), sort_keys=True) == key for x in again):
                ok = False
        if ok:
            v = dict(v)
            v['instances'] = count
            v['_dev_kinds'] = ''.join(kinds)
            confirmed.append((netmc.strip(choices), v))
        else:
            unrepro += 1
    sample = None
    if a is not None and i % 7 == 0:
        sample = {'scenario': scn.name, 'default_trace': [list(map(str, t)) for t in a.trace[:12]],
                  'choice_points': len(a.points)}
    return {
        'i': i, 'name': scn.name, 'executions': st.executions, 'choice_points': st.choice_points, 'turns': st.turns,
        'dev_by_kind': st.deviations_by_kind, 'traces': len(st.traces), 'no_q': st.no_quiescence,
        'capped': st.capped, 'det_ok': det_ok, 'confirmed': confirmed, 'unrepro': unrepro,
        'max_points': st.max_points, 'sample': sample, 'bound': bound,
    }


def run(prop, tier, scenarios, check, bound, describe, cap=None, rule='', assumptions=(), det_every=1, flagsets=None):
    """scenarios: list of netmc.Scenario; check(world) -> [ {symptom, features, detail} ]."""
    global _SCNS, _CHECK, _BOUND, _CAP, _DET_EVERY
    netmc.install()
    _SCNS, _CHECK, _BOUND, _CAP, _DET_EVERY = scenarios, check, bound, cap, det_every
    rep = common.Report(prop, tier)
    # warm the flag cache in the parent so that workers inherit it
    if flagsets is not None:
        for fa, fo in flagsets:
            netmc.make_flags(fa, **fo)
    else:
        for s in _SCNS:
            netmc.make_flags(s.flags_args, **s.flags_opts)
    dev = {}
    traces = 0
    nondet = []
    unrepro = 0
    capped = 0
    noq = 0
    maxp = 0
    pending = []
    order = range(len(_SCNS)) if flagsets is not None else sorted(range(len(_SCNS)), key=lambda i: -len(_SCNS[i].kinds) * 1000 - i)
    for r in common.pmap(_unit, order, chunksize=(64 if flagsets is not None else 1)):
        rep.add(traces_validated_against_impl=r['executions'], states=r['traces'], transitions=r['turns'], choice_points=r['choice_points'])
        for k, v in r['dev_by_kind'].items():
            dev[k] = dev.get(k, 0) + v
        traces += r['traces']
        if not r['det_ok']:
            nondet.append(r['name'])
        unrepro += r['unrepro']
        capped += r['capped']
        noq += r['no_q']
        maxp = max(maxp, r['max_points'])
        if r['sample']:
            rep.sample(r['sample'])
        for choices, v in r['confirmed']:
            pending.append((r['i'], choices, v))
    # A violation must also reproduce in a FRESH process: workers are long-lived and run thousands of executions
    # in one interpreter, so state that leaks between executions (in the SUT's modules or in the harness) can
    # fake -- or hide -- a failure.  A few candidates are re-executed from their recorded choices in a new
    # interpreter; if none of them fails there, nothing is reported (counted in the evidence instead).
    fresh_ok = fresh_bad = 0
    n_cand = len(pending)
    kept = []
    from concurrent.futures import ThreadPoolExecutor
    with ThreadPoolExecutor(max_workers=6) as tp:
        verdicts = list(tp.map(lambda t: _fresh_confirm(check, tier, _SCNS[t[0]].name, t[1], t[2]), pending[:12]))
    for k, (i, choices, v) in enumerate(pending):
        if k >= 12:
            # beyond the first dozen: kept iff the fresh process confirmed at least one of the dozen
            if fresh_ok:
                kept.append((i, choices, v))
            continue
        if verdicts[k]:
            fresh_ok += 1
            kept.append((i, choices, v))
        else:
            fresh_bad += 1
    rep.add(violation_candidates=n_cand, candidates_confirmed_in_a_fresh_process=fresh_ok,
            candidates_not_reproduced_in_a_fresh_process=fresh_bad)
    if fresh_bad:
        print('WARNING: %d of %d violation candidate(s) found in the worker processes did not fail when re-executed in a '
              'fresh process (not reported)' % (fresh_bad, n_cand))
    pending = kept
    for (i, choices, v) in pending:
        scn = _SCNS[i]
        feats = dict(scn.features)
        feats = {k: x for k, x in feats.items() if not k.startswith('_')}
        feats.update(v.get('features', {}))
        feats['symptom'] = v['symptom']
        feats['deviation_kinds'] = v['_dev_kinds'] if '_dev_kinds' in v else ''.join(sorted(set(
            k for k in _dev_kinds(scn, choices))))
        rep.violation(feats, {'scenario': scn.name, 'choices': list(choices), 'detail': v.get('detail'),
                              'instances': v.get('instances')})
    rep.add(scenarios=len(_SCNS), deviation_bound=bound, deviations_applied_by_kind=dev,
            distinct_sut_io_traces=traces, unreproducible=unrepro, capped_scenarios=capped,
            executions_hitting_horizon=noq, max_choice_points_in_one_execution=maxp,
            nondeterministic_scenarios=nondet,
            rule=rule or ('every scenario of the corpus x every environment schedule with <= bound deviations; '
                          'states = distinct SUT-side I/O traces, transitions = event-loop iterations (environment turn + real select) executed, '
                          'traces_validated_against_impl = executions of the real run() loop'))
    if capped:
        rep.coverage['exhaustive'] = False
    for a in assumptions:
        rep.assumptions.append(a)
    if nondet:
        print('HARNESS-ERROR: nondeterministic default trace in scenarios: %s' % nondet[:5])
    if unrepro:
        print('WARNING: %d violation classes did not reproduce on replay (not reported)' % unrepro)
    rc = rep.finish()
    if nondet and rc == 0:
        return 2
    return rc


def _fresh_confirm(check, tier, name, choices, v):
    """Re-execute one recorded failure in a new interpreter; True iff the same symptom shows there."""
    import os
    import subprocess
    import sys
    env = dict(os.environ)
    env['VERIF_CONFIRM'] = json.dumps({'module': check.__module__, 'check': check.__name__, 'tier': tier, 'name': name,
                                       'choices': list(choices), 'symptom': v['symptom']})
    env['PYTHONHASHSEED'] = '0'
    # one execution, alone in its process: 30 s of real time is ample (normally ~2 ms), and a candidate that
    # hangs or spins must not take minutes to say so again
    env['VERIF_WATCHDOG_S'] = '30'
    code = 'import sys; sys.path.insert(0, %r); from mc import netcheck; sys.exit(netcheck.confirm_entry())' % common.VERIF
    try:
        p = subprocess.run([sys.executable, '-c', code], env=env, cwd=common.VERIF, capture_output=True, timeout=900)
    except subprocess.TimeoutExpired:
        return True         # cannot tell: keep the candidate
    if p.returncode not in (0, 3):
        return True         # the confirmation itself failed to run: keep the candidate
    return p.returncode == 0


def confirm_entry():
    import importlib
    import os
    a = json.loads(os.environ['VERIF_CONFIRM'])
    common.bind_repo()
    mod = importlib.import_module(a['module'])
    scn = None
    sources = []
    for t in (a['tier'], 'thorough', 'quick'):
        sources.append(lambda t=t: mod.scenarios(t))
    if hasattr(mod, 'thorough_scenarios'):
        sources.insert(1, mod.thorough_scenarios)
    for src in sources:
        try:
            coll = src()
        except Exception:   # noqa
            continue
        if hasattr(coll, 'by_name'):
            scn = coll.by_name(a['name'])
        else:
            scn = next((x for x in coll if x.name == a['name']), None)
        if scn is not None:
            break
    if scn is None:
        return 4
    netmc.install()
    w = netmc.execute(scn, a['choices'])
    out = getattr(mod, a['check'])(w) or []
    return 0 if any(x.get('symptom') == a['symptom'] for x in out) else 3


def _dev_kinds(scn, choices):
    w = netmc.execute(scn, choices)
    return [k for (_i, k, _c, _m) in w.deviations()]


def replay(path, scenarios, check):
    body = json.load(open(path))
    r = body['replay']
    name = r['scenario']
    scn = [s for s in scenarios if s.name == name]
    if not scn:
        print('unknown scenario', name)
        return 2
    w = netmc.execute(scn[0], r['choices'])
    for t in w.trace:
        print('  ', t)
    print('deviations:', w.deviations())
    for c in w.clients:
        print(c.name, 'rx=', bytes(c.rx)[:300], c.events)
    for o in w.origin_conns:
        print(o.name, o.addr, 'rx=', bytes(o.rx)[:300], o.events)
    print('died=%s no_quiescence=%s stuck=%s' % (w.died, w.no_quiescence, w.stuck))
    vs = check(w)
    print('verdict:', vs)
    return 1 if vs else 0
