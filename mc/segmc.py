"""segmc: explicit-state exploration of ALL segmentations of a byte string fed to an
incremental consumer.  States are real consumer objects, merged by canonical form."""
import copy

copy._deepcopy_dispatch[memoryview] = lambda x, memo: memoryview(bytes(x))


def canon_obj(o, depth=0):
    """Canonical hashable form from ALL instance attributes (generic, recursive)."""
    if isinstance(o, memoryview):
        return ('mv', bytes(o))
    if isinstance(o, (bytes, str, int, float, bool)) or o is None:
        return o
    if isinstance(o, dict):
        return ('d',) + tuple(sorted((canon_obj(k), canon_obj(v, depth + 1)) for k, v in o.items()))
    if isinstance(o, (list, tuple)):
        return ('l',) + tuple(canon_obj(x, depth + 1) for x in o)
    if hasattr(o, '__dict__') and depth < 6:
        return (type(o).__name__,) + tuple(sorted((k, canon_obj(v, depth + 1)) for k, v in vars(o).items()))
    return repr(o)


class Exc:
    """Terminal pseudo-state: the consumer raised."""

    def __init__(self, e):
        self.exc = '%s: %s' % (type(e).__name__, str(e)[:80])


def explore(msg, new, feed, canon, on_state, max_piece=None):
    """Explore every segmentation of `msg`.

    new() -> fresh consumer state (any object deep-copyable)
    feed(state, piece) -> None (mutates state)
    canon(state) -> hashable
    on_state(state, offset, cuts) called once per distinct (offset, canon) state
    Returns (n_states, n_transitions, terminal_states_with_cuts).
    """
    n = len(msg)
    frontier = [dict() for _ in range(n + 1)]
    s0 = new()
    frontier[0][canon(s0)] = (s0, ())
    states = 1
    transitions = 0
    for pos in range(n):
        for key, (st, cuts) in list(frontier[pos].items()):
            if isinstance(st, Exc):
                continue
            hi = n if max_piece is None else min(n, pos + max_piece)
            for q in range(pos + 1, hi + 1):
                nxt = copy.deepcopy(st)
                try:
                    feed(nxt, msg[pos:q])
                except Exception as e:  # noqa
                    nxt = Exc(e)
                transitions += 1
                k = ('EXC', nxt.exc) if isinstance(nxt, Exc) else canon(nxt)
                if k not in frontier[q]:
                    ncuts = cuts + ((q,) if q < n else ())
                    frontier[q][k] = (nxt, ncuts)
                    states += 1
                    on_state(nxt, q, ncuts)
            # a raising state at a non-final offset is itself terminal
    terminals = list(frontier[n].values())
    # exception states at earlier offsets are terminal too
    for pos in range(1, n):
        for st, cuts in frontier[pos].values():
            if isinstance(st, Exc):
                terminals.append((st, cuts))
    return states, transitions, terminals


def pieces(msg, cuts):
    out = []
    prev = 0
    for c in list(cuts) + [len(msg)]:
        out.append(msg[prev:c])
        prev = c
    return out
