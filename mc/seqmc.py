"""seqmc: BFS over operation histories on fresh real objects, canonical-state dedup.

A state is identified by a representative history; build(hist) constructs fresh real objects
and replays the history, checking the reference model after every step."""
import collections


def bfs(alphabet, build, depth, canon=None):
    """alphabet: list of ops (hashable); build(hist) -> (canon_key, violations list, enabled_ops or None).
    Explores all histories up to `depth`, merging histories that reach the same canonical state.
    Returns dict(states, transitions, max_depth, violations[(hist, v)])."""
    k0, v0, en0 = build(())
    seen = {k0}
    frontier = collections.deque([()])
    viol = [((), v) for v in v0]
    transitions = 0
    maxd = 0
    while frontier:
        hist = frontier.popleft()
        if len(hist) >= depth:
            continue
        _k, _v, enabled = build(hist) if hist else (k0, v0, en0)
        for op in (enabled if enabled is not None else alphabet):
            h2 = hist + (op,)
            k, vs, _en = build(h2)
            transitions += 1
            for v in vs:
                viol.append((h2, v))
            if vs:
                continue            # do not extend beyond a violating state
            if k not in seen:
                seen.add(k)
                frontier.append(h2)
                maxd = max(maxd, len(h2))
    return {'states': len(seen), 'transitions': transitions, 'max_depth': maxd, 'violations': viol}
