"""Independent oracles (nothing here imports proxy)."""
import h11


def parse_response(data, method=b'GET', eof=True):
    """Parse bytes as ONE http response to a `method` request with h11.
    Returns dict(ok, error, status, reason, headers, body, complete, trailing)."""
    c = h11.Connection(our_role=h11.CLIENT, max_incomplete_event_size=1 << 24)
    c.send(h11.Request(method=method, target=b'/', headers=[(b'host', b'x')]))
    c.send(h11.EndOfMessage())
    out = {'ok': False, 'error': None, 'status': None, 'reason': None, 'headers': [], 'body': b'',
           'complete': False, 'trailing': b'', 'informational': []}
    try:
        if len(data):
            c.receive_data(bytes(data))
        fed_eof = False
        while True:
            ev = c.next_event()
            if ev is h11.NEED_DATA:
                if eof and not fed_eof:
                    c.receive_data(b'')
                    fed_eof = True
                    continue
                break
            if ev is h11.PAUSED:
                break
            if isinstance(ev, h11.InformationalResponse):
                out['informational'].append(ev.status_code)
            elif isinstance(ev, h11.Response):
                out['status'] = ev.status_code
                out['reason'] = bytes(ev.reason)
                out['headers'] = [(bytes(n), bytes(v)) for n, v in ev.headers.raw_items()]
            elif isinstance(ev, h11.Data):
                out['body'] += bytes(ev.data)
            elif isinstance(ev, h11.EndOfMessage):
                out['complete'] = True
                break
            elif isinstance(ev, h11.ConnectionClosed):
                break
        out['trailing'] = bytes(c.trailing_data[0])
        out['ok'] = out['complete'] and out['status'] is not None
    except h11.RemoteProtocolError as e:
        out['error'] = str(e)
    return out


def parse_responses(data, methods, eof=True):
    """Parse a stream holding one response per request method in `methods`."""
    res = []
    rest = bytes(data)
    for i, m in enumerate(methods):
        last = i == len(methods) - 1
        r = parse_response(rest, m, eof=eof and last)
        res.append(r)
        if not r['ok']:
            break
        rest = r['trailing']
    return res, (rest if res and res[-1]['ok'] else b'')


def parse_request(data):
    """Parse bytes as requests with h11 (server role). Returns (list of dict, error, complete_all)."""
    c = h11.Connection(our_role=h11.SERVER, max_incomplete_event_size=1 << 24)
    c.receive_data(bytes(data))
    reqs = []
    cur = None
    try:
        while True:
            ev = c.next_event()
            if ev is h11.NEED_DATA or ev is h11.PAUSED:
                break
            if isinstance(ev, h11.Request):
                cur = {'method': bytes(ev.method), 'target': bytes(ev.target), 'version': bytes(ev.http_version),
                       'headers': [(bytes(n), bytes(v)) for n, v in ev.headers.raw_items()], 'body': b'',
                       'complete': False}
                reqs.append(cur)
            elif isinstance(ev, h11.Data):
                cur['body'] += bytes(ev.data)
            elif isinstance(ev, h11.EndOfMessage):
                cur['complete'] = True
                try:
                    c.send(h11.Response(status_code=200, headers=[('content-length', '0')]))
                    c.send(h11.EndOfMessage())
                    c.start_next_cycle()
                except Exception:   # noqa
                    break
            elif isinstance(ev, h11.ConnectionClosed):
                break
    except h11.RemoteProtocolError as e:
        return reqs, str(e)
    return reqs, None
