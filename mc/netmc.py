"""netmc: stateless, deviation-bounded exploration of the REAL proxy.py event loops.

Real: LocalFdExecutor.run / RemoteFdExecutor.run / HttpProtocolHandler.run, all plugins,
TcpConnection, real epoll selector, real kernel stream sockets (AF_UNIX socketpairs).
Controlled: the selector's select() (the only scheduling point), the socket layer of the
SUT's connection sockets (connect/send/recv outcomes), name resolution, the clock.

Every source of ordering is a recorded *choice point* (index 0 = default answer).  An
execution is identified by its list of choices; the explorer enumerates all executions
with at most `bound` non-default choices (iterative deviation bounding).
"""
import os
import gc
import sys
import errno
import fcntl
import types
import socket
import _socket
import hashlib
import weakref
import threading
import selectors as real_selectors
import time as real_time

from . import common

# --------------------------------------------------------------------------- install

_installed = False
_py_close = socket.socket.close
_py_init = socket.socket.__init__
_c_connect = _socket.socket.connect
_c_send = _socket.socket.send
_c_recv = _socket.socket.recv
_c_shutdown = _socket.socket.shutdown
_real_getaddrinfo = socket.getaddrinfo


class World:
    current = None


class HarnessError(Exception):
    """Divergence / misuse inside the harness itself -- never a property violation."""


class Watchdog(BaseException):
    """Failure guard: one execution (normally ~1 ms) did not return within WATCHDOG_S of real time,
    i.e. the SUT sits in a blocking call or spins without ever reaching select()."""


WATCHDOG_S = int(os.environ.get('VERIF_WATCHDOG_S', '120'))


def _on_alarm(signum, frame):
    # the exception may be swallowed on its way out (asyncio stores a BaseException raised inside a task and the
    # proxy's loop then simply ends): the fact that the guard fired is recorded here
    w = World.current
    if w is not None:
        w.hung = True
        w.run_exc = 'Watchdog: execution did not return within %d s (SUT blocked or spinning)' % \
            int(w.scn.features.get('_watchdog', WATCHDOG_S))
    raise Watchdog()


def _ino(fd):
    try:
        return os.fstat(fd).st_ino
    except OSError:
        return None


def _w_init(self, *a, **kw):
    _py_init(self, *a, **kw)
    w = World.current
    if w is not None:
        w.all_socks.append(weakref.ref(self))


def _w_connect(self, addr):
    w = World.current
    if w is None or w.in_env:
        return _c_connect(self, addr)
    return w.sut_connect(self, addr)


def _w_send(self, data, *flags):
    w = World.current
    if w is None or w.in_env:
        return _c_send(self, data, *flags)
    role = w.role_of(self)
    if role is None:
        return _c_send(self, data, *flags)
    return w.sut_send(self, role, data, flags)


def _w_recv(self, n, *flags):
    w = World.current
    if w is None or w.in_env:
        return _c_recv(self, n, *flags)
    role = w.role_of(self)
    if role is None:
        return _c_recv(self, n, *flags)
    return w.sut_recv(self, role, n, flags)


def _w_shutdown(self, how):
    w = World.current
    if w is None or w.in_env:
        return _c_shutdown(self, how)
    role = w.role_of(self)
    if role is None:
        return _c_shutdown(self, how)
    return w.sut_shutdown(self, role, how)


def _w_close(self):
    w = World.current
    if w is not None and not w.in_env:
        role = w.role_of(self)
        if role is not None:
            w.sut_close(self, role)
    return _py_close(self)


def _w_getaddrinfo(host, port, *a, **kw):
    w = World.current
    if w is None or w.in_env:
        return _real_getaddrinfo(host, port, *a, **kw)
    return w.sut_getaddrinfo(host, port)


class _SelectorsShim(types.ModuleType):
    def __getattr__(self, name):
        return getattr(real_selectors, name)


class _TimeShim(types.ModuleType):
    def __getattr__(self, name):
        return getattr(real_time, name)


def _shim_time():
    w = World.current
    if w is None:
        return real_time.time()
    return w.now


class ControlledSelector:
    """Thin delegate around the real DefaultSelector; select() is the scheduling point."""

    def __init__(self):
        self._real = real_selectors.DefaultSelector()

    def register(self, fileobj, events, data=None):
        return self._real.register(fileobj, events, data)

    def unregister(self, fileobj):
        return self._real.unregister(fileobj)

    def modify(self, fileobj, events, data=None):
        return self._real.modify(fileobj, events, data)

    def get_map(self):
        return self._real.get_map()

    def get_key(self, fileobj):
        return self._real.get_key(fileobj)

    def close(self):
        return self._real.close()

    def select(self, timeout=None):
        w = World.current
        if w is None:
            return self._real.select(timeout)
        return w.on_select(self, timeout)


def install():
    """Patch the process once.  All wrappers are inert while World.current is None."""
    global _installed
    if _installed:
        return
    _installed = True
    common.bind_repo()
    socket.socket.__init__ = _w_init
    socket.socket.connect = _w_connect
    socket.socket.send = _w_send
    socket.socket.recv = _w_recv
    socket.socket.shutdown = _w_shutdown
    socket.socket.close = _w_close
    socket.getaddrinfo = _w_getaddrinfo
    sel = _SelectorsShim('selectors')
    sel.DefaultSelector = ControlledSelector
    tm = _TimeShim('time')
    tm.time = _shim_time
    import proxy.core.work.threadless as m1
    import proxy.http.handler as m2
    import proxy.http.proxy.server as m3
    import proxy.http.server.web as m4
    import proxy.core.acceptor.acceptor as m5
    for m in (m1, m2, m5):
        if getattr(m, 'selectors', None) is real_selectors:
            m.selectors = sel
    for m in (m2, m3, m4):
        if getattr(m, 'time', None) is real_time:
            m.time = tm
    # asyncio.wait() returns the finished tasks as a *set* (iteration order = memory
    # addresses).  Threadless iterates it to clean works up, so own that order:
    # canonical (by work id) by default, every permutation under kind 'O'.
    import asyncio as real_asyncio
    import itertools

    class _AsyncioShim(types.ModuleType):
        def __getattr__(self, name):
            return getattr(real_asyncio, name)

    ash = _AsyncioShim('asyncio')

    async def wait(fs, timeout=None, return_when=real_asyncio.ALL_COMPLETED):
        done, pending = await real_asyncio.wait(fs, timeout=timeout, return_when=return_when)
        w = World.current
        if w is None:
            return done, pending
        lst = sorted(done, key=lambda t: getattr(t, '_work_id', 0))
        if len(lst) > 1 and 'O' in w.kinds:
            perms = list(itertools.permutations(lst))[:6]
            lst = list(perms[w.choose('O', len(perms), 'finished-task order')])
        return lst, pending
    ash.wait = wait
    if getattr(m1, 'asyncio', None) is real_asyncio:
        m1.asyncio = ash
    # random.choice in the reverse proxy is a data choice point
    import proxy.http.server.reverse as m6

    class _Rand(types.ModuleType):
        def __getattr__(self, name):
            import random
            return getattr(random, name)

    r = _Rand('random')

    def choice(seq):
        w = World.current
        seq = list(seq)
        if w is None or len(seq) <= 1:
            import random
            return random.choice(seq)
        return seq[w.choose('D', len(seq), 'random.choice')]
    r.choice = choice
    m6.random = r


# --------------------------------------------------------------------------- flags

_flag_cache = {}


def make_flags(args, **opts):
    """Real FlagParser.initialize; cached per argument tuple (flags are read-only for works)."""
    install()
    key = (tuple(args), tuple(sorted((k, repr(v)) for k, v in opts.items())))
    if key not in _flag_cache:
        from proxy.common.flag import FlagParser
        import logging
        base = ['--log-level', 'c', '--data-dir', scratch_dir(), '--ca-cert-dir', scratch_dir() + '/certs',
                '--cache-dir', scratch_dir() + '/cache']
        _flag_cache[key] = FlagParser.initialize(base + list(args), **opts)
        logging.disable(logging.CRITICAL)
    return _flag_cache[key]


_scratch = None


def scratch_dir():
    global _scratch
    if _scratch is None:
        import tempfile
        import atexit
        import shutil
        _scratch = tempfile.mkdtemp(prefix='verif-netmc-')
        pid = os.getpid()

        def _rm():
            if os.getpid() == pid:
                shutil.rmtree(_scratch, ignore_errors=True)
        atexit.register(_rm)
    return _scratch


# --------------------------------------------------------------------------- peers

class Peer:
    """Harness-owned end of a connection.  All I/O via the raw C methods."""

    def __init__(self, world, name, sock):
        self.w = world
        self.name = name
        self.sock = sock
        sock.setblocking(False)
        self.rx = bytearray()
        self.tx = bytearray()
        self.events = []            # ('data', n) / ('eof',) / ('rst',)
        self.eof = False
        self.rst = False
        self.eof_turn = None
        self.eof_time = None
        self.closed = False
        self.outbox = []            # pending actions
        self.read_limit = None      # bytes per turn (paced reader); None = all
        self.reading = True
        self.blocked_send = False   # the last send() moved nothing: the proxy is not taking our bytes (yet)

    # -- actions
    def _send(self, data):
        self.blocked_send = False
        try:
            n = _c_send(self.sock, data)
        except BlockingIOError:
            self.blocked_send = True
            return 0
        except OSError as e:
            self.events.append(('send_err', errno.errorcode.get(e.errno, str(e.errno))))
            self.w.log(self.name, 'send_err', e.errno)
            return len(data)
        self.tx += data[:n]
        self.w.log(self.name, 'send', n)
        return n

    def do_action(self, act):
        """Returns True if the action finished (else it stays at the head of the outbox)."""
        k = act[0]
        if self.closed:
            return True
        if k == 'send':
            data = act[1]
            n = self._send(data)
            if n < len(data):
                self.outbox[0] = ('send', data[n:])
                return False
            return True
        if k == 'shutdown_wr':
            try:
                _c_shutdown(self.sock, socket.SHUT_WR)
            except OSError:
                pass
            self.w.log(self.name, 'shutdown_wr')
            return True
        if k == 'close':
            self.close()
            return True
        if k == 'stop_reading':
            self.reading = False
            return True
        if k == 'start_reading':
            self.reading = True
            return True
        raise HarnessError('unknown action %r' % (act,))

    def close(self):
        if not self.closed:
            self.closed = True
            self.w.log(self.name, 'close')
            _py_close(self.sock)

    # -- reading
    def readable(self):
        if self.closed or self.eof or not self.reading:
            return False
        if getattr(self, 'sequential', False) and self.outbox:
            return False
        try:
            _c_recv(self.sock, 1, socket.MSG_PEEK)
            return True
        except BlockingIOError:
            return False
        except OSError:
            return True

    def read(self, limit=None):
        """Drain (up to limit) what is readable; returns bytes moved."""
        moved = 0
        while not self.closed and not self.eof:
            want = 65536 if limit is None else min(65536, limit - moved)
            if want <= 0:
                break
            try:
                d = _c_recv(self.sock, want)
            except BlockingIOError:
                break
            except OSError as e:
                self.rst = True
                self.eof = True
                self.eof_turn = self.w.turn
                self.eof_time = self.w.now
                self.events.append(('rst',))
                self.w.log(self.name, 'rst', e.errno)
                break
            if not d:
                self.eof = True
                self.eof_turn = self.w.turn
                self.eof_time = self.w.now
                self.events.append(('eof',))
                self.w.log(self.name, 'eof')
                break
            self.rx += d
            moved += len(d)
            if self.events and self.events[-1][0] == 'data':
                self.events[-1] = ('data', self.events[-1][1] + len(d))
            else:
                self.events.append(('data', len(d)))
            self.w.log(self.name, 'read', len(d))
            self.on_data(d)
        return moved

    def on_data(self, d):
        pass


class Client(Peer):
    """Scripted client.  Script steps:
       ('send', bytes) ('wait_recv', total_bytes) ('wait_eof',) ('wait_idle',)
       ('shutdown_wr',) ('close',) ('stop_reading',) ('wait_time', t)
    """

    def __init__(self, world, idx, script, start_turn=0, read_limit=None, send_on_connect=None, preclose=False,
                 faults_off=False):
        self.send_on_connect = send_on_connect
        self.preclose = preclose
        self.faults_off = faults_off      # from the moment this client connects, no more faults / short writes are injected
        self.idx = idx
        self.script = list(script)
        self.pc = 0
        self.start_turn = start_turn
        self.connected = False
        self.name = 'c%d' % idx
        self.w = world
        self.read_limit = read_limit
        self.addr = ('127.0.0.1', 50000 + idx)
        self.sut_sock = None
        self.rx = bytearray()
        self.tx = bytearray()
        self.events = []
        self.eof = self.rst = self.closed = False
        self.eof_turn = self.eof_time = None
        self.outbox = []
        self.reading = True

    def connect(self):
        if self.faults_off:
            self.w.faults_disabled = True
        a, b = self.w.mkpair()
        Peer.__init__(self, self.w, self.name, a)
        self.read_limit = self.read_limit
        self.connected = True
        self.sut_sock = b
        self.w.register_sut(b, self.name)
        self.w.log(self.name, 'connect')
        if self.send_on_connect:
            # bytes that are already in flight when the proxy accepts (needed where the SUT does a
            # blocking read during initialisation, e.g. the TLS front handshake)
            self._send(self.send_on_connect)
        if self.preclose:
            self.do_action(('shutdown_wr',))
        self.w.introduce(self, b)

    def done(self):
        return self.pc >= len(self.script)

    def step_enabled(self):
        """Return the action to perform now, or None if waiting / finished."""
        if not self.connected:
            if self.start_turn == 'idle':
                # connect once everything before us has gone quiet
                ok = (self.w.calm_turns >= 2 or self.w.idle_turns >= 2) and all(
                    c.connected and (c.done() or c.step_enabled() is None)
                    for c in self.w.clients[:self.idx])
                return ('connect',) if ok else None
            return ('connect',) if self.w.turn >= self.start_turn else None
        while self.pc < len(self.script):
            st = self.script[self.pc]
            k = st[0]
            if k == 'wait_recv':
                if len(self.rx) >= st[1] or self.eof:
                    self.pc += 1
                    continue
                return None
            if k == 'wait_eof':
                if self.eof:
                    self.pc += 1
                    continue
                return None
            if k == 'wait_idle':
                if self.w.calm_turns >= 2 or self.w.idle_turns >= 2:
                    self.pc += 1
                    continue
                return None
            if k == 'wait_time':
                if self.w.now >= st[1]:
                    self.pc += 1
                    continue
                return None
            if k == 'sleep':
                if getattr(self, '_sleep_pc', None) != self.pc:
                    self._sleep_pc = self.pc
                    self._sleep_until = self.w.now + st[1]
                if self.w.now >= self._sleep_until - 1e-9:
                    self.pc += 1
                    continue
                return None
            if k == 'wait_turns':
                if self.w.turn >= st[1]:
                    self.pc += 1
                    continue
                return None
            return st
        return None

    def waiting_on_clock(self):
        if self.connected and self.pc < len(self.script):
            st = self.script[self.pc]
            if st[0] in ('wait_time', 'sleep', 'wait_turns'):
                return True
        # blocked in a send(): waiting for the proxy to read or to give up (its timers run on the clock)
        return bool(self.connected and not self.closed and self.outbox and self.outbox[0][0] == 'send' and self.blocked_send)


class OriginConn(Peer):
    def __init__(self, world, name, sock, addr, behaviour):
        Peer.__init__(self, world, name, sock)
        self.addr = addr
        self.behaviour = behaviour
        behaviour.on_accept(self)

    def on_data(self, d):
        self.behaviour.on_data(self, d)


class Behaviour:
    def on_accept(self, conn):
        pass

    def on_data(self, conn, d):
        pass


class RawOrigin(Behaviour):
    """Tunnel-style origin: sends `greeting` pieces on accept, then `after[n]` pieces once
    n bytes were received; optional final action."""

    def __init__(self, greeting=(), after=None, finally_=None, no_read=False):
        self.greeting = list(greeting)
        self.after = dict(after or {})
        self.finally_ = finally_
        self.no_read = no_read

    def on_accept(self, conn):
        if self.no_read:
            conn.reading = False        # accepts, then never reads: the proxy's writes pile up
        for p in self.greeting:
            conn.outbox.append(('send', p))
        if not self.after and self.finally_:
            conn.outbox.append((self.finally_,))
        self._fired = set()

    def on_data(self, conn, d):
        for n in sorted(self.after):
            if n not in self._fired and len(conn.rx) >= n:
                self._fired.add(n)
                for p in self.after[n]:
                    conn.outbox.append(('send', p))
                if self.finally_ and len(self._fired) == len(self.after):
                    conn.outbox.append((self.finally_,))


class TimedOrigin(Behaviour):
    """Origin that sends `greeting` on accept and then piece k at virtual time accept + schedule[k][0]
    (a server pushing data on its own clock).  The scenario's min_time must cover the schedule."""

    def __init__(self, greeting=(), schedule=(), reads=None):
        """reads: None = read normally; else [(dt, nbytes)]: the origin reads ONLY at those times, nbytes each
        (a slow consumer: the proxy's writes towards it pile up in between)."""
        self.greeting = list(greeting)
        self.schedule = sorted(schedule)
        self.reads = None if reads is None else sorted(reads)

    def on_accept(self, conn):
        for p in self.greeting:
            conn.outbox.append(('send', p))
        w = conn.w
        t0 = w.now
        pending = list(self.schedule)
        reads = None if self.reads is None else list(self.reads)
        if reads is not None:
            conn.reading = False

        def tick(world):
            while pending and world.now >= t0 + pending[0][0] - 1e-9 and not conn.closed:
                conn.outbox.append(('send', pending.pop(0)[1]))
                world.activity += 1
            while reads and world.now >= t0 + reads[0][0] - 1e-9 and not conn.closed:
                n = reads.pop(0)[1]
                conn.reading = True
                try:
                    conn.read(n)
                finally:
                    conn.reading = False
                world.activity += 1
        w.hooks.append(tick)

    def on_data(self, conn, d):
        pass


class CloseOnAccept(Behaviour):
    """Peer that hangs up the instant the connection is established (e.g. stands in for a TLS
    endpoint: a blocking handshake in the SUT then fails at once instead of waiting)."""

    def on_accept(self, conn):
        conn.close()


class HttpOrigin(Behaviour):
    """HTTP origin: h11 parses what arrives; after the k-th complete request it sends the
    k-th scripted response (list of pieces), then the optional action ('close'/'shutdown_wr')."""

    def __init__(self, responses, then=None, respond=None, sequential=False, coalesce=None):
        self.responses = responses
        self.then = then or {}
        self.respond = respond
        # coalesce: responses to requests that arrived together leave in ONE segment (0), or in two segments cut
        # k bytes after the end of the first response (k > 0) / before it (k < 0) -- response boundaries and
        # segment boundaries need not coincide
        self.coalesce = coalesce
        # an ordinary sequential server: it writes a whole response before it reads on (while a response is
        # being sent nothing is read from the connection)
        self.sequential = sequential

    def on_accept(self, conn):
        import h11
        conn.h11 = h11.Connection(our_role=h11.SERVER, max_incomplete_event_size=1 << 20)
        conn.sequential = self.sequential
        conn.requests = []
        conn.cur = None
        conn.h11_error = None

    def on_data(self, conn, d):
        n0 = len(conn.outbox)
        try:
            self._on_data(conn, d)
        finally:
            new = conn.outbox[n0:]
            if self.coalesce is not None and len(new) >= 2 and all(a[0] == 'send' for a in new):
                first = len(new[0][1])
                whole = b''.join(a[1] for a in new)
                k = first + self.coalesce
                conn.outbox[n0:] = [('send', whole)] if self.coalesce == 0 or not (0 < k < len(whole)) else \
                    [('send', whole[:k]), ('send', whole[k:])]

    def _on_data(self, conn, d):
        import h11
        if conn.h11_error:
            return
        conn.h11.receive_data(bytes(d))
        while True:
            try:
                ev = conn.h11.next_event()
            except h11.RemoteProtocolError as e:
                conn.h11_error = str(e)
                self.w_log(conn, 'h11_error')
                return
            if ev is h11.NEED_DATA or ev is h11.PAUSED:
                return
            if isinstance(ev, h11.Request):
                conn.cur = {'method': ev.method, 'target': ev.target, 'version': ev.http_version,
                            'headers': [(bytes(n), bytes(v)) for n, v in ev.headers.raw_items()],
                            'body': b'', 'complete': False}
                conn.requests.append(conn.cur)
            elif isinstance(ev, h11.Data):
                conn.cur['body'] += bytes(ev.data)
            elif isinstance(ev, h11.EndOfMessage):
                conn.cur['complete'] = True
                k = len(conn.requests) - 1
                if self.respond is not None:
                    pieces = self.respond(conn, k, conn.cur)
                else:
                    pieces = self.responses[k] if k < len(self.responses) else []
                for p in pieces:
                    conn.outbox.append(('send', p))
                if k in self.then:
                    conn.outbox.append((self.then[k],))
                # tell h11 we answered so that it accepts the next request
                try:
                    conn.h11.send(h11.Response(status_code=200, headers=[('content-length', '0')]))
                    conn.h11.send(h11.EndOfMessage())
                    conn.h11.start_next_cycle()
                except Exception:   # noqa  (e.g. connection: close -> MUST_CLOSE)
                    return
            elif isinstance(ev, h11.ConnectionClosed):
                return

    @staticmethod
    def w_log(conn, what):
        conn.w.log(conn.name, what)


# --------------------------------------------------------------------------- world

class Point:
    __slots__ = ('kind', 'n', 'meta')

    def __init__(self, kind, n, meta):
        self.kind, self.n, self.meta = kind, n, meta


SEND_ERRS = [errno.EPIPE, errno.ECONNRESET]
RECV_ERRS = [errno.ECONNRESET, errno.ETIMEDOUT]
CONNECT_ERRS = [errno.ECONNREFUSED, errno.ETIMEDOUT, errno.EHOSTUNREACH]


class Scenario:
    """Plain description of one closed system."""

    def __init__(self, name, flags_args, mode='local', clients=(), origins=None, dns=None,
                 net=None, kinds='ARS', horizon=400, features=None, flags_opts=None,
                 min_time=None, quiet_turns=3, setup=None):
        self.name = name
        self.flags_args = list(flags_args)
        self.flags_opts = dict(flags_opts or {})
        self.mode = mode
        self.clients = list(clients)          # list of dict(script=..., start_turn=..., read_limit=...)
        self.origins = dict(origins or {})    # (ip, port) -> callable() -> Behaviour
        self.dns = dict(dns or {})            # name -> ip  (missing -> gaierror)
        self.net = dict(net or {})            # (ip, port) -> 'refuse'|'timeout'|'unreach'  (origins => accept)
        self.kinds = kinds
        self.horizon = horizon
        self.features = dict(features or {})
        self.min_time = min_time
        self.quiet_turns = quiet_turns
        self.setup = setup


class Execution:
    """What one run produced."""
    pass


class WorldImpl(World):

    def __init__(self, scn, prefix=()):
        self.scn = scn
        self.prefix = tuple(prefix)
        self.points = []
        self.choices = []
        self.kinds = set(scn.kinds)
        self.trace = []
        self.turn = 0
        self.turn_time = {0: 1000.0}
        self.now = 1000.0
        self.in_env = False
        self.idle_turns = 0
        self.calm_turns = 0        # turns in which neither a peer nor the SUT did any I/O (the loop may still spin)
        self.activity_mark = 0
        self.progress = 0
        self.progress_mark = 0
        self.activity = 0          # bumped by any env action / SUT io
        self.all_socks = []
        self.sut_roles = {}        # inode -> role name
        self.role_addr = {}        # upstream role -> (ip, port)
        self.sut_created = []      # (role, fileno at creation)
        self.sut_closed = []       # (role, fileno)
        self.connect_log = []      # (family, addr, outcome)
        self.dns_log = []
        self.clients = []
        self.origin_conns = []
        self.stop_requested = False
        self.stop_raised = 0
        self.extra_turns = 0
        self.no_quiescence = False
        self.stuck = False
        self.died = False
        self.hung = False
        self.run_exc = None
        self.executor = None
        self.blocked = []          # (role, call, seconds): SUT socket calls that blocked the event-loop thread
        self.hooks = []            # callables(world) run each turn before peers (scenario-specific)
        self.at_quiescence = None  # callable(world) run right before the stop is raised
        self.census0 = None
        self.diverged = None

    # ---- logging / choices
    def log(self, actor, op, detail=None):
        self.trace.append((self.turn, actor, op, detail))
        self.activity += 1
        self.progress += 1      # real events only (pending / postponed actions bump `activity`, not this)

    def choose(self, kind, n, meta=None):
        i = len(self.choices)
        if n <= 1:
            return 0
        if i < len(self.prefix):
            c = self.prefix[i]
            if c >= n:
                raise HarnessError('replay divergence at choice %d: want alt %d of %d (%s %r)' % (
                    i, c, n, kind, meta))
        else:
            c = 0
        self.points.append(Point(kind, n, meta))
        self.choices.append(c)
        if c:
            self.trace.append((self.turn, 'env', 'deviate', (kind, c, meta)))
        return c

    def fault_ok(self, role, addr=None):
        """Faults (kind F) and short writes may be restricted to some connections of a scenario:
        features['_fault_clients'] = set of client names, ['_fault_addrs'] = set of upstream addrs."""
        if getattr(self, 'faults_disabled', False):
            return False
        fc = self.scn.features.get('_fault_clients')
        fa = self.scn.features.get('_fault_addrs')
        if fc is None and fa is None:
            return True
        if addr is not None:
            return fa is not None and addr in fa
        if role is None:
            return False
        if role.startswith('c'):
            return fc is not None and role in fc
        return fa is not None and self.role_addr.get(role) in fa

    def mkpair(self):
        a, b = socket.socketpair()
        sb = self.scn.features.get('_sockbuf')
        if sb:
            for x in (a, b):
                x.setsockopt(socket.SOL_SOCKET, socket.SO_SNDBUF, sb)
                x.setsockopt(socket.SOL_SOCKET, socket.SO_RCVBUF, sb)
        return a, b

    # ---- SUT socket bookkeeping
    def register_sut(self, sock, role):
        ino = _ino(sock.fileno())
        self.sut_roles[ino] = role
        self.sut_created.append((role, sock.fileno()))

    def role_of(self, sock):
        fd = sock.fileno()
        if fd < 0:
            return None
        return self.sut_roles.get(_ino(fd))

    # ---- SUT-side socket operations
    def sut_getaddrinfo(self, host, port):
        self.dns_log.append((host, port))
        self.log('sut', 'getaddrinfo', (host, port))
        h = host.decode() if isinstance(host, bytes) else host
        if h not in self.scn.dns:
            raise socket.gaierror(socket.EAI_NONAME, 'Name or service not known')
        ip = self.scn.dns[h]
        fam = socket.AF_INET6 if ':' in ip else socket.AF_INET
        sa = (ip, port, 0, 0) if fam == socket.AF_INET6 else (ip, port)
        return [(fam, socket.SOCK_STREAM, 6, '', sa)]

    def sut_connect(self, sock, addr):
        key = (addr[0], addr[1])
        fam = {socket.AF_INET: 'inet', socket.AF_INET6: 'inet6'}.get(sock.family, str(sock.family))
        outcome = 'accept' if key in self.scn.origins else self.scn.net.get(key, 'refuse')
        if 'F' in self.kinds and self.fault_ok(None, key):
            c = self.choose('F', 1 + len(CONNECT_ERRS), ('connect', key))
            if c:
                outcome = {errno.ECONNREFUSED: 'refuse', errno.ETIMEDOUT: 'timeout',
                           errno.EHOSTUNREACH: 'unreach'}[CONNECT_ERRS[c - 1]]
        self.connect_log.append((fam, addr, outcome))
        self.log('sut', 'connect', (fam, key, outcome))
        if outcome == 'refuse':
            raise ConnectionRefusedError(errno.ECONNREFUSED, 'Connection refused')
        if outcome == 'timeout':
            raise socket.timeout('timed out')
        if outcome == 'unreach':
            raise OSError(errno.EHOSTUNREACH, 'No route to host')
        n = len(self.origin_conns)
        role = 'u%d' % n
        self.in_env = True
        try:
            a, b = self.mkpair()
            fl = fcntl.fcntl(sock.fileno(), fcntl.F_GETFL)
            os.dup2(a.fileno(), sock.fileno())
            fcntl.fcntl(sock.fileno(), fcntl.F_SETFL, fl)
            _py_close(a)
            self.sut_roles[_ino(sock.fileno())] = role
            self.role_addr[role] = key
            self.sut_created.append((role, sock.fileno()))
            oc = OriginConn(self, 'o%d' % n, b, key, self.scn.origins[key]())
            self.origin_conns.append(oc)
        finally:
            self.in_env = False
        return None

    def sut_send(self, sock, role, data, flags):
        n = len(data)
        alts = [('ok', n)]
        if 'S' in self.kinds and n > 0 and self.fault_ok(role):
            if n > 1:
                alts.append(('ok', 1))
            if n > 2:
                alts.append(('ok', n - 1))
            if n > 5:
                alts.append(('ok', n // 2))
            alts.append(('block',))
        if 'F' in self.kinds and self.fault_ok(role):
            alts += [('err', e) for e in SEND_ERRS]
        c = self.choose('S', len(alts), ('send', role, n)) if len(alts) > 1 else 0
        a = alts[c]
        if a[0] == 'block':
            self.log(role, 'sut_send_block', n)
            raise BlockingIOError(errno.EAGAIN, 'Resource temporarily unavailable')
        if a[0] == 'err':
            self.log(role, 'sut_send_err', a[1])
            # EPIPE / ECONNRESET on a send mean that the peer is gone: it is, from here on (the proxy's later reads
            # from that socket see the end of the stream, as they would on a real connection -- a "broken pipe" to
            # a peer that lives on and stays silent does not exist)
            peer = None
            if role.startswith('c') and role[1:].isdigit() and int(role[1:]) < len(self.clients):
                peer = self.clients[int(role[1:])]
            elif role.startswith('u') and role[1:].isdigit() and int(role[1:]) < len(self.origin_conns):
                peer = self.origin_conns[int(role[1:])]
            if peer is not None and not peer.closed:
                was = self.in_env
                self.in_env = True
                try:
                    peer.close()
                finally:
                    self.in_env = was
            if a[1] == errno.EPIPE:
                raise BrokenPipeError(a[1], os.strerror(a[1]))
            raise ConnectionResetError(a[1], os.strerror(a[1]))
        take = a[1]
        try:
            if sock.gettimeout() != 0.0:
                # A send() on a BLOCKING socket (or one with a timeout) whose buffer is full waits for the peer.
                # Nobody else runs while the single event-loop thread sits in that call, so in this world it
                # waits for its whole timeout: the virtual clock jumps and the call times out, instead of the
                # harness really sleeping.  The stall is recorded (w.blocked) for the oracles.
                import select as _select
                if not _select.select([], [sock.fileno()], [], 0)[1]:
                    t = sock.gettimeout()
                    self.blocked.append((role, 'send', t))
                    self.log(role, 'sut_send_blocks_event_loop', t)
                    self.now += (t if t is not None else 3600.0)
                    raise socket.timeout('timed out')
                r = _c_send(sock, data[:take], *flags)
            else:
                r = _c_send(sock, data[:take], *flags)
        except OSError as e:
            self.log(role, 'sut_send_exc', e.errno)
            raise
        self.log(role, 'sut_send', (n, r))
        return r

    def sut_recv(self, sock, role, n, flags):
        if 'F' in self.kinds and self.fault_ok(role):
            c = self.choose('F', 1 + len(RECV_ERRS), ('recv', role))
            if c:
                e = RECV_ERRS[c - 1]
                self.log(role, 'sut_recv_err', e)
                if e == errno.ECONNRESET:
                    raise ConnectionResetError(e, os.strerror(e))
                raise TimeoutError(e, os.strerror(e))
        try:
            if sock.gettimeout() != 0.0:
                # recv() on a blocking / timeout socket with nothing to read: the event-loop thread would wait
                # for the peer, and nobody runs meanwhile (same model as for send, see sut_send)
                import select as _select
                if not _select.select([sock.fileno()], [], [], 0)[0]:
                    t = sock.gettimeout()
                    self.blocked.append((role, 'recv', t))
                    self.log(role, 'sut_recv_blocks_event_loop', t)
                    self.now += (t if t is not None else 3600.0)
                    raise socket.timeout('timed out')
            d = _c_recv(sock, n, *flags)
        except OSError as e:
            self.log(role, 'sut_recv_exc', e.errno)
            raise
        self.log(role, 'sut_recv', len(d))
        return d

    def sut_shutdown(self, sock, role, how):
        if 'F' in self.kinds and self.fault_ok(role):
            # e.g. ENOTCONN after the peer reset a TCP connection
            if self.choose('F', 2, ('shutdown', role)):
                self.log(role, 'sut_shutdown_err', errno.ENOTCONN)
                raise OSError(errno.ENOTCONN, os.strerror(errno.ENOTCONN))
        self.log(role, 'sut_shutdown', how)
        return _c_shutdown(sock, how)

    def sut_close(self, sock, role):
        self.sut_closed.append((role, sock.fileno()))
        self.log(role, 'sut_close', None)

    # ---- introducing connections, per mode
    def introduce(self, client, sut_sock):
        mode = self.scn.mode
        if mode == 'local':
            self.executor.work_queue.put((sut_sock, client.addr))
        elif mode == 'remote':
            from proxy.core.work.delegate import delegate_work_to_pool
            was = self.in_env
            self.in_env = False     # delegate closes its copy of the socket: let that be logged as SUT-side
            try:
                delegate_work_to_pool(os.getpid(), self.pipe_send, self.work_lock, sut_sock, client.addr,
                                      self.flags.unix_socket_path)
            finally:
                self.in_env = was
        elif mode == 'threaded':
            raise HarnessError('threaded mode has exactly one, pre-connected client')

    # ---- the environment turn
    def env_turn(self):
        self.in_env = True
        try:
            before = self.activity
            for h in self.hooks:
                h(self)
            peers = list(self.clients) + list(self.origin_conns)
            for p in peers:
                # (1) one pending send-type action
                if isinstance(p, Client):
                    act = p.step_enabled()
                    if act is not None:
                        skip = self.choose('A', 2, (p.name, act[0])) if 'A' in self.kinds else 0
                        if skip:
                            self.activity += 1      # a postponed action is still pending: not quiescent
                            self.progress += 1      # ... and not calm either: the environment chose to wait
                        if not skip:
                            if act[0] == 'connect':
                                p.connect()
                            else:
                                if not p.outbox:
                                    p.outbox.append(act)
                                if p.do_action(p.outbox[0]):
                                    p.outbox.pop(0)
                                    p.pc += 1
                            # a send() the kernel refuses outright (the proxy is not reading) is waiting, not acting:
                            # the clock must be able to run on (the proxy's idle reaper is what ends such a wait)
                            if not (act[0] == 'send' and p.blocked_send):
                                self.activity += 1
                elif p.outbox and not p.closed:
                    skip = self.choose('A', 2, (p.name, p.outbox[0][0])) if 'A' in self.kinds else 0
                    if skip:
                        self.activity += 1
                        self.progress += 1
                    if not skip:
                        k0 = p.outbox[0][0]
                        if p.do_action(p.outbox[0]):
                            p.outbox.pop(0)
                        if not (k0 == 'send' and p.blocked_send):
                            self.activity += 1
                # (2) drain what is readable
                if getattr(p, 'connected', True) and p.readable():
                    r = self.choose('R', 3, (p.name,)) if 'R' in self.kinds else 0
                    if r == 0:
                        p.read(p.read_limit)
                    elif r == 2:
                        p.read(1)
                    else:
                        # read nothing this turn: the data is still pending, the world is not quiescent
                        self.activity += 1
                        self.progress += 1
            # origin connections created during this turn act from the next turn on
            return self.activity != before
        finally:
            self.in_env = False

    def scripts_done(self):
        for c in self.clients:
            if not c.connected or not c.done() or (c.outbox and not c.closed):
                return False
        for o in self.origin_conns:
            if o.outbox and not o.closed:
                return False
        return True

    def on_select(self, selector, timeout):
        if self.stop_raised:
            # shutdown paths (e.g. threaded-mode blocking flush) keep getting environment turns
            self.extra_turns += 1
            if self.extra_turns > 200:
                self.no_quiescence = True
                raise KeyboardInterrupt()
        self.turn += 1
        self.turn_time[self.turn] = self.now
        sut_acted = self.progress != self.progress_mark      # SUT-side I/O since the previous select()
        a0 = self.activity
        p0 = self.progress
        self.env_turn()
        # "calm": nobody moved a byte or opened / closed anything.  A loop that keeps being woken (e.g. by a
        # half-dead descriptor it neither reads nor closes) without doing I/O is calm, although never idle;
        # peers that wait for the proxy to finish reacting ('wait_idle', start 'idle') go by calm turns.
        if sut_acted or self.progress != p0:
            self.calm_turns = 0
        else:
            self.calm_turns += 1
        ready = selector._real.select(0)
        ready.sort(key=lambda kv: kv[0].fd)
        if len(ready) > 1 and 'E' in self.kinds:
            # epoll reports ready descriptors in ITS order (roughly: order of becoming ready), which need
            # not be the order in which the works were accepted: canonical (by descriptor) by default,
            # every permutation (first six) under kind 'E'
            import itertools
            perms = list(itertools.islice(itertools.permutations(range(len(ready))), 6))
            ready = [ready[i] for i in perms[self.choose('E', len(perms), 'ready-event order')]]
        acted = self.activity != a0
        if ready or acted:
            self.idle_turns = 0
            # a busy iteration is not free: scenarios may price it (elapsed time must not be inferred
            # from the number of select() time-outs alone)
            self.now += self.scn.features.get('_dt_busy', 0.0)
        else:
            self.idle_turns += 1
            self.now += (timeout if timeout else 0.0)
        if not self.stop_raised:
            stop = False
            if self.turn >= self.scn.horizon:
                self.no_quiescence = True
                stop = True
            elif self.idle_turns >= self.scn.quiet_turns and \
                    (self.scn.min_time is None or self.now >= 1000.0 + self.scn.min_time):
                if not any(c.waiting_on_clock() or not c.connected for c in self.clients) and \
                        not any(o.outbox and o.blocked_send and not o.closed for o in self.origin_conns):
                    stop = True
                    self.stuck = not self.scripts_done()
            if stop:
                if self.at_quiescence is not None:
                    self.in_env = True
                    try:
                        self.at_quiescence(self)
                    finally:
                        self.in_env = False
                self.stop_requested = True
                self.stop_raised += 1
                raise KeyboardInterrupt()
        self.activity_mark = self.activity
        self.progress_mark = self.progress
        return ready

    # ---- run
    def run(self):
        install()
        scn = self.scn
        self.flags = make_flags(scn.flags_args, **scn.flags_opts)
        fd0 = set(os.listdir('/proc/self/fd'))
        World.current = self
        try:
            self.in_env = True
            if scn.setup:
                scn.setup(self)
            for i, c in enumerate(scn.clients):
                self.clients.append(Client(self, i, c['script'], c.get('start_turn', 0), c.get('read_limit'),
                                           c.get('send_on_connect'), c.get('preclose', False), c.get('faults_off', False)))
            self.in_env = False
            import signal
            use_alarm = threading.current_thread() is threading.main_thread()
            if use_alarm:
                old_handler = signal.signal(signal.SIGALRM, _on_alarm)
                signal.alarm(int(scn.features.get('_watchdog', WATCHDOG_S)))
            try:
                self._run_mode()
            except KeyboardInterrupt:
                pass
            except Watchdog:
                self.run_exc = 'Watchdog: execution did not return within %d s (SUT blocked or spinning)' % int(scn.features.get('_watchdog', WATCHDOG_S))
                self.hung = True
            except BaseException as e:  # noqa
                self.run_exc = '%s: %s' % (type(e).__name__, e)
            finally:
                if use_alarm:
                    signal.alarm(0)
                    signal.signal(signal.SIGALRM, old_handler)
            if not self.stop_requested:
                self.died = True
            self.in_env = True
            self.final_drain()
        finally:
            self.in_env = True
            try:
                self._teardown(fd0)
            finally:
                World.current = None
                self.in_env = False
        return self

    def _run_mode(self):
        import asyncio
        mode = self.scn.mode
        if mode == 'local':
            from proxy.core.work.fd.local import LocalFdExecutor
            from proxy.common.backports import NonBlockingQueue
            ex = LocalFdExecutor(iid='1', work_queue=NonBlockingQueue(), flags=self.flags, event_queue=None)
            self.executor = ex
            ex.run()
        elif mode == 'remote':
            import multiprocessing
            from proxy.core.work.fd.remote import RemoteFdExecutor
            self.in_env = True
            self.pipe_send, self.pipe_recv = multiprocessing.Pipe()
            self.in_env = False
            self.work_lock = threading.Lock()
            ex = RemoteFdExecutor(iid='1', work_queue=self.pipe_recv, flags=self.flags, event_queue=None)
            ex._loop = asyncio.new_event_loop()
            self.executor = ex
            ex.run()
        elif mode == 'threaded':
            c = self.clients[0]
            self.in_env = True
            a, b = self.mkpair()
            Peer.__init__(c, self, c.name, a)
            c.connected = True
            c.sut_sock = b
            self.register_sut(b, c.name)
            self.log(c.name, 'connect')
            if c.send_on_connect:
                c._send(c.send_on_connect)
            if c.preclose:
                c.do_action(('shutdown_wr',))
            self.in_env = False
            work = self.flags.work_klass(self.flags.work_klass.create(b, c.addr), flags=self.flags,
                                         event_queue=None, upstream_conn_pool=None)
            self.executor = work
            work.run()
            # a thread-per-connection worker ends with its connection: that is not a death
            self.stop_requested = True
        else:
            raise HarnessError('mode ' + mode)

    def final_drain(self):
        """After the SUT stopped: let every peer read what is still in flight (EOF/RST included)."""
        self.turn += 1
        for p in list(self.clients) + list(self.origin_conns):
            if getattr(p, 'connected', True) and not p.closed and p.reading:
                p.read()

    def _teardown(self, fd0):
        for p in list(self.clients) + list(self.origin_conns):
            if getattr(p, 'connected', True) and not p.closed:
                p.closed = True
                try:
                    _py_close(p.sock)
                except OSError:
                    pass
        for ps in ('pipe_send', 'pipe_recv'):
            x = getattr(self, ps, None)
            if x is not None:
                try:
                    x.close()
                except OSError:
                    pass
        ex = self.executor
        loop = getattr(ex, '_loop', None)
        if loop is not None and not loop.is_closed():
            try:
                loop.close()
            except Exception:   # noqa
                pass
        for r in self.all_socks:
            s = r()
            if s is not None and s.fileno() >= 0:
                try:
                    _py_close(s)
                except OSError:
                    pass
        self.all_socks = []
        left = set(os.listdir('/proc/self/fd')) - fd0
        self.leftover_fds = 0
        for f in left:
            try:
                os.close(int(f))
                self.leftover_fds += 1
            except OSError:
                pass
        self.executor = None

    # ---- observation helpers
    def trace_hash(self):
        h = hashlib.sha1()
        for t in self.trace:
            h.update(repr(t).encode())
        return h.hexdigest()[:16]

    def sut_trace_hash(self):
        h = hashlib.sha1()
        for t in self.trace:
            if t[2].startswith('sut_') or t[1] == 'sut':
                h.update(repr(t[1:]).encode())
        return h.hexdigest()[:16]

    def deviations(self):
        return [(i, self.points[i].kind, c, self.points[i].meta) for i, c in enumerate(self.choices) if c]

    def fd_census(self):
        return set(os.listdir('/proc/self/fd'))


def execute(scn, prefix=()):
    return WorldImpl(scn, prefix).run()


# --------------------------------------------------------------------------- explorer

class Stats:
    def __init__(self):
        self.executions = 0
        self.choice_points = 0
        self.deviations_by_kind = {}
        self.traces = set()
        self.outcomes = set()
        self.max_points = 0
        self.no_quiescence = 0
        self.capped = 0
        self.turns = 0

    def merge(self, o):
        self.executions += o.executions
        self.choice_points += o.choice_points
        for k, v in o.deviations_by_kind.items():
            self.deviations_by_kind[k] = self.deviations_by_kind.get(k, 0) + v
        self.traces |= o.traces
        self.outcomes |= o.outcomes
        self.max_points = max(self.max_points, o.max_points)
        self.no_quiescence += o.no_quiescence
        self.capped += o.capped


def explore(scn, bound, check, first=None, cap=None, stats=None, kinds_cost=None):
    """Enumerate every execution of `scn` with <= bound deviations.

    check(world) -> list of violation dicts (may be empty)
    first: restrict to the subtree whose first deviation is (index, alt) -- a work unit.
    Returns (stats, violations[(choices, violation)])."""
    st = stats or Stats()
    out = []
    if first is None:
        stack = [()]
    else:
        stack = [tuple(first)]
    root = first is None
    hangs = 0
    while stack:
        prefix = stack.pop()
        w = execute(scn, prefix)
        st.executions += 1
        st.choice_points += len(w.points)
        st.turns += w.turn
        st.max_points = max(st.max_points, len(w.points))
        st.traces.add(w.sut_trace_hash())
        if w.no_quiescence:
            st.no_quiescence += 1
        for (_i, k, _c, _m) in w.deviations():
            st.deviations_by_kind[k] = st.deviations_by_kind.get(k, 0) + 1
        for v in check(w) or []:
            out.append((tuple(w.choices), v))
            st.outcomes.add(('V', v.get('symptom')))
        if cap is not None and st.executions >= cap:
            st.capped += 1
            break
        if w.hung:
            # an execution that hangs (already a violation of whatever is being checked) costs WATCHDOG_S of
            # real time; a tree that hangs everywhere must not take hours to say so: later executions of this
            # worker get a shorter guard, and a scenario is abandoned (counted as capped) after three hangs
            global WATCHDOG_S
            WATCHDOG_S = min(WATCHDOG_S, 15)
            hangs += 1
            if hangs >= 3:
                st.capped += 1
                break
        ndev = sum(1 for c in prefix if c)
        if ndev >= bound:
            continue
        if root and first is None and bound >= 1 and False:
            continue
        for i in range(len(prefix), len(w.points)):
            for alt in range(1, w.points[i].n):
                stack.append(tuple(w.choices[:i]) + (alt,))
    return st, out


def first_level_units(scn):
    """Work units for parallel exploration: the default run's single deviations."""
    w = execute(scn, ())
    units = []
    for i, p in enumerate(w.points):
        for alt in range(1, p.n):
            units.append(tuple(w.choices[:i]) + (alt,))
    return w, units


def strip(choices):
    c = list(choices)
    while c and c[-1] == 0:
        c.pop()
    return c
