"""One live configuration point for C19 (run as its own process)."""
import os
import sys
import json
import time
import socket
import tempfile
import shutil


def probe(family, addr, timeout=30.0):
    """Returns ('answered', first line) / ('refused',) / ('error', repr)."""
    s = socket.socket(family, socket.SOCK_STREAM)
    s.settimeout(timeout)
    try:
        s.connect(addr)
    except (ConnectionRefusedError, FileNotFoundError):
        s.close()
        return ['refused']
    except OSError as e:
        s.close()
        return ['error', repr(e)]
    try:
        s.sendall(b'GET /verif-probe HTTP/1.1\r\nHost: x\r\n\r\n')
        data = b''
        while b'\r\n' not in data:
            d = s.recv(4096)
            if not d:
                break
            data += d
        return ['answered', data.split(b'\r\n')[0].decode('latin-1')] if data else ['accepted_but_silent']
    except OSError as e:
        return ['accepted_but_error', repr(e)]
    finally:
        s.close()


def children(pid):
    out = []
    for d in os.listdir('/proc'):
        if d.isdigit():
            try:
                with open('/proc/%s/stat' % d) as f:
                    st = f.read()
                ppid = int(st.rsplit(')', 1)[1].split()[1])
                state = st.rsplit(')', 1)[1].split()[0]
                if ppid == pid and state != 'Z':
                    out.append(int(d))
            except (OSError, ValueError, IndexError):
                pass
    return out


def free_port(family, host):
    s = socket.socket(family)
    s.bind((host, 0))
    p = s.getsockname()[1]
    s.close()
    return p


def main():
    pt = json.loads(sys.argv[1])
    sys.path.insert(0, os.environ.get('VERIF_REPO', '/repo'))
    import logging
    from proxy import Proxy
    tmp = tempfile.mkdtemp(prefix='verif-c19-')
    res = {'point': pt}
    try:
        hosts = [pt['hostname']] + pt['hostnames']
        fam = {h: (socket.AF_INET6 if ':' in h else socket.AF_INET) for h in hosts}
        fixed = {}

        def port_value(tag):
            if tag == 0:
                return 0
            if tag == 'D':
                # the DEFAULT value of --port (8899), given explicitly among --ports; one point at a time may hold it
                if 'D' not in fixed:
                    import fcntl
                    lock = open('/tmp/verif-c19-default-port.lock', 'w')
                    fcntl.flock(lock, fcntl.LOCK_EX)
                    res['_lock'] = True
                    globals()['_default_port_lock'] = lock
                    for h in hosts:
                        s = socket.socket(fam[h])
                        s.setsockopt(socket.SOL_SOCKET, socket.SO_REUSEADDR, 1)
                        try:
                            s.bind((h, 8899))
                        except OSError:
                            raise RuntimeError('SKIP: default port 8899 is in use on this machine')
                        finally:
                            s.close()
                    fixed['D'] = 8899
                return fixed['D']
            if tag not in fixed:
                # a port that is free on every configured address
                for _ in range(50):
                    p = free_port(fam[hosts[0]], hosts[0])
                    ok = True
                    for h in hosts[1:]:
                        try:
                            s = socket.socket(fam[h])
                            s.bind((h, p))
                            s.close()
                        except OSError:
                            ok = False
                    if ok and p not in fixed.values():
                        fixed[tag] = p
                        break
            return fixed[tag]
        args = ['--hostname', pt['hostname']] + ([] if pt['port'] is None else ['--port', str(port_value(pt['port']))]) + [
                '--num-workers', str(pt['workers']), '--num-acceptors', str(pt.get('acceptors', pt['workers'])),
                '--log-level', 'c', '--data-dir', tmp, '--ca-cert-dir', tmp + '/c', '--cache-dir', tmp + '/cache']
        if pt['hostnames']:
            args += ['--hostnames'] + pt['hostnames']
        want_ports = [port_value(t) for t in pt['ports']]
        if pt['ports']:
            args += ['--ports'] + [str(p) for p in want_ports]
        if pt['unix']:
            args += ['--unix-socket-path', tmp + '/p.sock']
        if pt['files']:
            args += ['--port-file', tmp + '/port', '--pid-file', tmp + '/pid']
        args += {'threaded': ['--threaded'], 'local': ['--threadless', '--local-executor', '1'],
                 'remote': ['--threadless', '--local-executor', '0']}[pt['mode']]
        p = Proxy(args)
        p.setup()
        logging.disable(logging.CRITICAL)
        try:
            res['flags_port'] = p.flags.port
            res['flags_ports'] = sorted(p.flags.ports)
            bound = []
            for l in p.listeners.pool:
                sk = l._socket
                if sk is not None and sk.family != socket.AF_UNIX:
                    bound.append((sk.getsockname()[0], sk.getsockname()[1]))
            res['bound'] = sorted(bound)
            res['requested_primary'] = None if pt['port'] is None else port_value(pt['port'])
            res['requested_ports'] = want_ports
            if pt['files']:
                res['port_file'] = open(tmp + '/port').read().split()
                res['pid_file'] = open(tmp + '/pid').read().strip()
                res['pid'] = str(os.getpid())
            probes = {}
            time.sleep(0.3)
            for (h, prt) in bound:
                probes['%s|%d' % (h, prt)] = probe(fam[h], (h, prt))
                # further clients, one after the other (acceptors take turns, each hands its works to the workers in turn)
                for k in range(1, int(pt.get('probes', 1))):
                    probes['%s|%d#%d' % (h, prt, k)] = probe(fam[h], (h, prt), timeout=10.0)
            if pt['unix']:
                probes['unix'] = probe(socket.AF_UNIX, tmp + '/p.sock')
            res['probes_up'] = probes
        finally:
            p.shutdown()
        time.sleep(0.2)
        down = {}
        for (h, prt) in res.get('bound', []):
            down['%s|%d' % (h, prt)] = probe(fam[h], (h, prt), timeout=2.0)
        if pt['unix']:
            down['unix'] = probe(socket.AF_UNIX, tmp + '/p.sock', timeout=2.0)
            res['unix_socket_file_left'] = os.path.exists(tmp + '/p.sock')
        res['probes_down'] = down
        deadline = time.time() + 30
        kids = children(os.getpid())
        while kids and time.time() < deadline:
            time.sleep(0.1)
            kids = children(os.getpid())
        res['children_left'] = len(kids)
        if pt['files']:
            res['files_left'] = [f for f in ('port', 'pid') if os.path.exists(tmp + '/' + f)]
    except BaseException as e:  # noqa
        import traceback
        if str(e).startswith('SKIP:'):
            res['skipped'] = str(e)
        res['exception'] = '%s: %s' % (type(e).__name__, e)
        res['traceback'] = traceback.format_exc()[-1200:]
    finally:
        shutil.rmtree(tmp, ignore_errors=True)
    print('RESULT ' + json.dumps(res))
    sys.stdout.flush()
    os._exit(0)


if __name__ == '__main__':
    main()
