"""cfgmc: exhaustive enumeration of a finite configuration lattice; every point is run LIVE in its
own process (real listeners, real worker processes), driven to a quiescent state and judged only by
predicates on that state.  Real time is used purely as a failure guard (generous timeouts)."""
import os
import sys
import json
import subprocess
from concurrent.futures import ThreadPoolExecutor
from . import common


def run_points(module, points, jobs=None, timeout=90):
    """Runs `python -m <module> '<json point>'` per point, in parallel; yields (point, result dict)."""
    env = dict(os.environ)
    env['PYTHONPATH'] = common.VERIF + os.pathsep + env.get('PYTHONPATH', '')
    env['PYTHONHASHSEED'] = env.get('PYTHONHASHSEED', '0')

    def one(pt):
        e = dict(env)
        if 'hashseed' in pt:
            e['PYTHONHASHSEED'] = str(pt['hashseed'])
        try:
            p = subprocess.run([sys.executable, '-m', module, json.dumps(pt)], capture_output=True, timeout=timeout,
                               env=e, cwd=common.VERIF)
            out = p.stdout.decode('utf-8', 'replace')
            line = [l for l in out.splitlines() if l.startswith('RESULT ')]
            if not line:
                return pt, {'harness_error': 'no result', 'rc': p.returncode, 'stderr': p.stderr.decode('utf-8', 'replace')[-800:]}
            return pt, json.loads(line[-1][7:])
        except subprocess.TimeoutExpired:
            return pt, {'harness_error': 'timeout after %ds' % timeout}
    pts = list(points)
    s = common.seed()
    if s:
        import random
        random.Random(s).shuffle(pts)
    with ThreadPoolExecutor(jobs or common.NCPU) as ex:
        for r in ex.map(one, pts):
            yield r
