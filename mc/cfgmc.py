"""cfgmc: exhaustive enumeration of a finite configuration lattice; every point is run LIVE in its
own process (real listeners, real worker processes), driven to a quiescent state and judged only by
predicates on that state.  Real time is used purely as a failure guard (generous timeouts)."""
import os
import sys
import json
import subprocess
from concurrent.futures import ThreadPoolExecutor
from . import common


def run_points(module, points, jobs=None, timeout=90):
    """Runs `python -m <module> '<json point>'` per point, in parallel; yields (point, result dict)."""
    env = dict(os.environ)
    env['PYTHONPATH'] = common.VERIF + os.pathsep + env.get('PYTHONPATH', '')
    env['PYTHONHASHSEED'] = env.get('PYTHONHASHSEED', '0')

    def one(pt):
        e = dict(env)
        if 'hashseed' in pt:
            e['PYTHONHASHSEED'] = str(pt['hashseed'])
        try:
            p = subprocess.run([sys.executable, '-m', module, json.dumps(pt)], capture_output=True, timeout=timeout,
                               env=e, cwd=common.VERIF)
            out = p.stdout.decode('utf-8', 'replace')
            line = [l for l in out.splitlines() if l.startswith('RESULT ')]
            if not line:
                return pt, {'harness_error': 'no result', 'rc': p.returncode, 'stderr': p.stderr.decode('utf-8', 'replace')[-800:]}
            return pt, json.loads(line[-1][7:])
        except subprocess.TimeoutExpired:
            return pt, {'harness_error': 'timeout after %ds' % timeout}
    pts = list(points)
    s = common.seed()
    if s:
        import random
        random.Random(s).shuffle(pts)
    with ThreadPoolExecutor(jobs or common.NCPU) as ex:
        for r in ex.map(one, pts):
            yield r


def run_judged(module, points, judge, jobs=None, timeout=90, stats=None):
    """run_points + judge, with confirmation: a point that the judge faults is run a second time with little
    else going on (4 at a time), and only symptoms that recur are reported.  A configuration point is a
    deterministic input, so a genuine violation recurs; what does not recur is a real-time artefact of
    a loaded machine (these live points use wall-clock timeouts as failure guards).  Yields
    (point, result, verdicts)."""
    first = list(run_points(module, points, jobs=jobs, timeout=timeout))
    suspects = {}
    for pt, r in first:
        v = judge(pt, r)
        if v:
            suspects[json.dumps(pt, sort_keys=True)] = v
    second = {}
    if suspects:
        again = [pt for pt, _r in first if json.dumps(pt, sort_keys=True) in suspects]
        for pt, r in run_points(module, again, jobs=min(4, jobs or 4), timeout=timeout):
            second[json.dumps(pt, sort_keys=True)] = r
    if stats is not None:
        stats['points_rerun_for_confirmation'] = len(suspects)
        stats['points_not_reproduced'] = 0
    for pt, r in first:
        k = json.dumps(pt, sort_keys=True)
        if k not in suspects:
            yield pt, r, []
            continue
        r2 = second[k]
        syms1 = {sym for sym, _d in suspects[k]}
        v2 = [(sym, d) for sym, d in judge(pt, r2) if sym in syms1]
        if not v2 and stats is not None:
            stats['points_not_reproduced'] += 1
            stats.setdefault('not_reproduced_examples', []).append({'point': pt, 'first_run_symptoms': sorted(syms1)})
        yield pt, r2, v2
