"""Shared plumbing: repo binding, evidence, known findings, replay files, pool."""
import os
import sys
import json
import time
import hashlib
import multiprocessing as mp

VERIF = os.path.dirname(os.path.dirname(os.path.abspath(__file__)))
REPO = os.path.realpath(os.environ.get('VERIF_REPO', '/repo'))
EVIDENCE_DIR = os.path.join(VERIF, 'evidence')
REPLAY_DIR = os.path.join(VERIF, 'replays')
KNOWN_FINDINGS = os.path.join(VERIF, 'known_findings.json')
NCPU = int(os.environ.get('VERIF_JOBS', '0')) or min(16, os.cpu_count() or 1)


def bind_repo():
    """Make `import proxy` resolve to REPO's working tree and assert it did."""
    if sys.path[0] != REPO:
        sys.path.insert(0, REPO)
    import proxy  # noqa
    got = os.path.realpath(os.path.dirname(os.path.dirname(proxy.__file__)))
    assert got == REPO, 'proxy imported from %s, wanted %s' % (got, REPO)
    import logging
    logging.disable(logging.CRITICAL)
    return proxy


def seed():
    try:
        return int(os.environ.get('VERIF_SEED', '0'))
    except ValueError:
        return 0


def hx(b):
    return bytes(b).hex()


def jsonable(o):
    if isinstance(o, (bytes, bytearray, memoryview)):
        b = bytes(o)
        try:
            s = b.decode('ascii')
            if s.isprintable() or all(c in '\r\n\t' or c.isprintable() for c in s):
                return 'b:' + s
        except UnicodeDecodeError:
            pass
        return 'hex:' + b.hex()
    if isinstance(o, dict):
        return {str(jsonable(k)) if not isinstance(k, str) else k: jsonable(v) for k, v in o.items()}
    if isinstance(o, (list, tuple, set, frozenset)):
        return [jsonable(x) for x in (sorted(o, key=repr) if isinstance(o, (set, frozenset)) else o)]
    if isinstance(o, (str, int, float, bool)) or o is None:
        return o
    return repr(o)


def unjson(o):
    """Inverse of jsonable for bytes markers."""
    if isinstance(o, str):
        if o.startswith('b:'):
            return o[2:].encode('latin-1')
        if o.startswith('hex:'):
            return bytes.fromhex(o[4:])
        return o
    if isinstance(o, list):
        return [unjson(x) for x in o]
    if isinstance(o, dict):
        return {k: unjson(v) for k, v in o.items()}
    return o


class Findings:
    """Read-only view of known_findings.json.

    An entry suppresses a violation only if *every* key of its ``match`` dict is
    present in the violation's ``features`` with an equal value (lists in the
    entry mean "one of").  ``fixed`` entries suppress nothing.
    """

    def __init__(self):
        self.entries = []
        if os.path.exists(KNOWN_FINDINGS) and not os.environ.get('VERIF_IGNORE_KNOWN'):
            with open(KNOWN_FINDINGS) as f:
                self.entries = json.load(f).get('findings', [])

    def match(self, prop, features):
        for e in self.entries:
            if e.get('property') != prop:
                continue
            ok = True
            for k, v in e.get('match', {}).items():
                fv = features.get(k, '<absent>')
                if isinstance(v, list):
                    if fv not in v:
                        ok = False
                        break
                elif fv != v:
                    ok = False
                    break
            if ok:
                return e
        return None


class Report:
    """Collects violations / coverage for one check run and writes evidence."""

    def __init__(self, prop, tier, level='model_checking'):
        self.prop = prop
        self.tier = tier
        self.level = level
        self.t0 = time.time()
        self.findings = Findings()
        self.violations = []      # unlisted
        self.known = {}           # finding id -> count
        self.known_example = {}
        self.coverage = {'states': 0, 'transitions': 0, 'traces_validated_against_impl': 0,
                         'samples': [], 'exhaustive': True}
        self.assumptions = []
        self.max_report = int(os.environ.get('VERIF_MAX_REPORT', '5'))

    def add(self, **kw):
        for k, v in kw.items():
            if isinstance(v, int) and not isinstance(v, bool):
                self.coverage[k] = self.coverage.get(k, 0) + v
            else:
                self.coverage[k] = v

    def sample(self, s, cap=6):
        if len(self.coverage['samples']) < cap:
            self.coverage['samples'].append(jsonable(s))

    def violation(self, features, replay):
        """features: flat dict used for known-finding matching; replay: dict."""
        e = self.findings.match(self.prop, features)
        if e is not None:
            fid = e['id']
            self.known[fid] = self.known.get(fid, 0) + 1
            self.known_example.setdefault(fid, (e, features))
            return False
        self.violations.append((features, replay))
        return True

    def finish(self):
        os.makedirs(EVIDENCE_DIR, exist_ok=True)
        os.makedirs(REPLAY_DIR, exist_ok=True)
        for fid in sorted(self.known):
            e, _ = self.known_example[fid]
            print('KNOWN-FINDING: property=%s %s [%s] (%d instances this run)' % (
                self.prop, e.get('what', fid), fid, self.known[fid]))
        # Distinct violation classes, a few replays each.
        seen = {}
        for feats, replay in self.violations:
            key = json.dumps(jsonable(feats), sort_keys=True)
            seen.setdefault(key, []).append((feats, replay))
        n = 0
        for key in sorted(seen, key=lambda k: (len(k), k)):
            feats, replay = seen[key][0]
            if n >= self.max_report:
                break
            n += 1
            body = {'property': self.prop, 'features': jsonable(feats), 'replay': jsonable(replay),
                    'instances_in_class': len(seen[key])}
            h = hashlib.sha1(json.dumps(body, sort_keys=True).encode()).hexdigest()[:12]
            path = os.path.join(REPLAY_DIR, '%s-%s.json' % (self.prop, h))
            with open(path, 'w') as f:
                json.dump(body, f, indent=1, sort_keys=True)
            print('VIOLATION property=%s replay=%s' % (self.prop, path))
            print('  features: %s' % json.dumps(jsonable(feats), sort_keys=True)[:600])
        if len(seen) > n:
            print('  (+%d further violation classes not written)' % (len(seen) - n))
        cov = self.coverage
        cov['violation_classes'] = len(seen)
        cov['known_finding_instances'] = dict(self.known)
        ev = {
            'property_id': self.prop,
            'tier': self.tier,
            'seed': seed(),
            'level': self.level,
            'coverage': jsonable(cov),
            'assumptions': self.assumptions,
            'wall_s': round(time.time() - self.t0, 3),
            'violations': len(self.violations),
        }
        path = os.path.join(EVIDENCE_DIR, '%s.json' % self.prop)
        if os.environ.get('VERIF_NO_EVIDENCE'):
            path = os.path.join(REPLAY_DIR, 'scratch-evidence-%s.json' % self.prop)
        with open(path, 'w') as f:
            json.dump(ev, f, indent=1, sort_keys=True)
        print('%s tier=%s states=%s transitions=%s executions=%s violations=%d known=%d wall=%.1fs' % (
            self.prop, self.tier, cov.get('states'), cov.get('transitions'),
            cov.get('traces_validated_against_impl'), len(self.violations),
            sum(self.known.values()), ev['wall_s']))
        return 1 if self.violations else 0


_POOL_FN = None


def _pool_call(arg):
    return _POOL_FN(arg)


def pmap(fn, items, jobs=None, chunksize=1, init=None):
    """Ordered-by-completion parallel map over a fork pool (workers long lived).

    Items are permuted by VERIF_SEED (work-unit order only; the covered set is
    independent of the seed)."""
    global _POOL_FN
    items = list(items)
    s = seed()
    if s:
        import random
        random.Random(s).shuffle(items)
    jobs = jobs or NCPU
    if jobs <= 1 or len(items) <= 1:
        if init:
            init()
        for it in items:
            yield fn(it)
        return
    _POOL_FN = fn
    ctx = mp.get_context('fork')
    with ctx.Pool(min(jobs, len(items)), initializer=init) as pool:
        for r in pool.imap_unordered(_pool_call, items, chunksize):
            yield r
