"""Throw-away PKI for C11, generated with the openssl binary under /verif/_pki."""
import os
import subprocess
import tempfile
from . import common

DIR = os.path.join(common.VERIF, '_pki')
SANS = 'DNS:origin.test,IP:127.0.0.1,IP:::1'


def _run(*args):
    subprocess.run(['openssl'] + list(args), check=True, capture_output=True)


def ensure():
    marker = os.path.join(DIR, 'ready')
    if os.path.exists(marker):
        return DIR
    tmp = tempfile.mkdtemp(prefix='_pki-', dir=common.VERIF)
    p = lambda n: os.path.join(tmp, n)   # noqa
    # proxy CA + signing key (the key pair used for every generated leaf)
    _run('genrsa', '-out', p('ca-key.pem'), '2048')
    _run('req', '-new', '-x509', '-sha256', '-days', '3650', '-key', p('ca-key.pem'), '-subj', '/CN=verif proxy CA',
         '-addext', 'basicConstraints=critical,CA:TRUE', '-out', p('ca-cert.pem'))
    _run('genrsa', '-out', p('ca-signing-key.pem'), '2048')
    # origin CA
    _run('genrsa', '-out', p('oca-key.pem'), '2048')
    _run('req', '-new', '-x509', '-sha256', '-days', '3650', '-key', p('oca-key.pem'), '-subj', '/CN=verif origin CA',
         '-addext', 'basicConstraints=critical,CA:TRUE', '-out', p('oca-cert.pem'))
    _run('genrsa', '-out', p('origin-key.pem'), '2048')

    def leaf(name, san, extra):
        with open(p(name + '.ext'), 'w') as f:
            f.write('subjectAltName=%s\n' % san)
        _run('req', '-new', '-key', p('origin-key.pem'), '-subj', '/CN=origin.test/O=verif origin', '-out', p(name + '.csr'))
        _run('x509', '-req', '-sha256', '-in', p(name + '.csr'), '-CA', p('oca-cert.pem'), '-CAkey', p('oca-key.pem'),
             '-set_serial', str(abs(hash(name)) % 100000 + 2), '-extfile', p(name + '.ext'), '-out', p(name + '.pem'), *extra)
    leaf('trusted', SANS, ['-days', '365'])
    leaf('wrongname', 'DNS:other.test,IP:10.9.9.9', ['-days', '365'])
    leaf('expired', SANS, ['-not_before', '20200101000000Z', '-not_after', '20200102000000Z'])
    # self-signed leaf (not issued by the origin CA)
    _run('req', '-new', '-x509', '-sha256', '-days', '365', '-key', p('origin-key.pem'), '-subj', '/CN=origin.test',
         '-addext', 'subjectAltName=' + SANS, '-out', p('selfsigned.pem'))
    open(p('ready'), 'w').close()
    try:
        os.rename(tmp, DIR)
    except OSError:
        import shutil
        shutil.rmtree(tmp, ignore_errors=True)     # somebody else won the race
    return DIR


def ensure_front():
    """Self-signed key/cert for the proxy's own TLS front (--key-file/--cert-file)."""
    d = ensure()
    k, c = os.path.join(d, 'front-key.pem'), os.path.join(d, 'front-cert.pem')
    if not (os.path.exists(k) and os.path.exists(c)):
        tk, tc = k + '.%d' % os.getpid(), c + '.%d' % os.getpid()
        _run('genrsa', '-out', tk, '2048')
        _run('req', '-new', '-x509', '-sha256', '-days', '365', '-key', tk, '-subj', '/CN=proxy.front.test', '-out', tc)
        os.rename(tk, k)
        os.rename(tc, c)
    return k, c
