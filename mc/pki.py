"""Throw-away PKI for C11, generated with the openssl binary under /verif/_pki."""
import os
import subprocess
import tempfile
from . import common

DIR = os.path.join(common.VERIF, '_pki')
# a host name longer than the 64 characters an X.509 commonName can hold (labels <= 63 each) -- what names a
# certificate is the subjectAltName, so such a host is as valid as any other
LONG_HOST = 'a' * 50 + '.' + 'b' * 40 + '.origin.test'
SANS = 'DNS:origin.test,IP:127.0.0.1,IP:::1,DNS:' + LONG_HOST


def _run(*args):
    r = subprocess.run([os.environ.get('VERIF_OPENSSL', 'openssl')] + list(args), capture_output=True)
    if r.returncode != 0:
        raise RuntimeError('openssl %s failed (%d): %s' % (' '.join(args[:2]), r.returncode, r.stderr.decode('utf-8', 'replace')[-600:]))


def ensure():
    marker = os.path.join(DIR, 'ready2')
    if os.path.exists(marker):
        return DIR
    if os.path.isdir(DIR):
        # made by an earlier version of this file (other names in the certificates)
        import shutil
        try:
            os.rename(DIR, DIR + '.old.%d' % os.getpid())
            shutil.rmtree(DIR + '.old.%d' % os.getpid(), ignore_errors=True)
        except OSError:
            pass
    tmp = tempfile.mkdtemp(prefix='_pki-', dir=common.VERIF)
    p = lambda n: os.path.join(tmp, n)   # noqa
    # proxy CA + signing key (the key pair used for every generated leaf)
    _run('genrsa', '-out', p('ca-key.pem'), '2048')
    _run('req', '-new', '-x509', '-sha256', '-days', '3650', '-key', p('ca-key.pem'), '-subj', '/CN=verif proxy CA',
         '-addext', 'basicConstraints=critical,CA:TRUE', '-out', p('ca-cert.pem'))
    _run('genrsa', '-out', p('ca-signing-key.pem'), '2048')
    # origin CA
    _run('genrsa', '-out', p('oca-key.pem'), '2048')
    _run('req', '-new', '-x509', '-sha256', '-days', '3650', '-key', p('oca-key.pem'), '-subj', '/CN=verif origin CA',
         '-addext', 'basicConstraints=critical,CA:TRUE', '-out', p('oca-cert.pem'))
    _run('genrsa', '-out', p('origin-key.pem'), '2048')

    def leaf(name, san, extra):
        with open(p(name + '.ext'), 'w') as f:
            f.write('subjectAltName=%s\n' % san)
        _run('req', '-new', '-key', p('origin-key.pem'), '-subj', '/CN=origin.test/O=verif origin', '-out', p(name + '.csr'))
        _run('x509', '-req', '-sha256', '-in', p(name + '.csr'), '-CA', p('oca-cert.pem'), '-CAkey', p('oca-key.pem'),
             '-set_serial', str(abs(hash(name)) % 100000 + 2), '-extfile', p(name + '.ext'), '-out', p(name + '.pem'), *extra)
    leaf('trusted', SANS, ['-days', '365'])
    leaf('wrongname', 'DNS:other.test,IP:10.9.9.9', ['-days', '365'])
    # an EXPIRED leaf: `x509 -req` can only set explicit dates from OpenSSL 3.4 on (-not_before/-not_after);
    # `openssl ca -startdate/-enddate` works with every version (3.0.x is what /usr/bin provides here)
    with open(p('expired.ext'), 'w') as f:
        f.write('subjectAltName=%s\n' % SANS)
    _run('req', '-new', '-key', p('origin-key.pem'), '-subj', '/CN=origin.test/O=verif origin', '-out', p('expired.csr'))
    cadir = p('ca-work')
    os.makedirs(os.path.join(cadir, 'new'))
    open(os.path.join(cadir, 'index.txt'), 'w').close()
    with open(os.path.join(cadir, 'serial'), 'w') as f:
        f.write('1000\n')
    with open(os.path.join(cadir, 'ca.cnf'), 'w') as f:
        f.write('[ca]\ndefault_ca=CA_default\n[CA_default]\ndir=%s\ndatabase=$dir/index.txt\nnew_certs_dir=$dir/new\n'
                'serial=$dir/serial\ndefault_md=sha256\npolicy=policy_any\nunique_subject=no\ncopy_extensions=none\n'
                '[policy_any]\ncommonName=supplied\norganizationName=optional\n' % cadir)
    _run('ca', '-batch', '-config', os.path.join(cadir, 'ca.cnf'), '-cert', p('oca-cert.pem'), '-keyfile', p('oca-key.pem'),
         '-in', p('expired.csr'), '-out', p('expired.pem'), '-notext', '-extfile', p('expired.ext'),
         '-startdate', '20200101000000Z', '-enddate', '20200102000000Z')
    import shutil
    shutil.rmtree(cadir, ignore_errors=True)
    # self-signed leaf (not issued by the origin CA)
    _run('req', '-new', '-x509', '-sha256', '-days', '365', '-key', p('origin-key.pem'), '-subj', '/CN=origin.test',
         '-addext', 'subjectAltName=' + SANS, '-out', p('selfsigned.pem'))
    open(p('ready2'), 'w').close()
    try:
        os.rename(tmp, DIR)
    except OSError:
        import shutil
        shutil.rmtree(tmp, ignore_errors=True)     # somebody else won the race
    return DIR


def ensure_front():
    """Self-signed key/cert for the proxy's own TLS front (--key-file/--cert-file)."""
    d = ensure()
    k, c = os.path.join(d, 'front-key.pem'), os.path.join(d, 'front-cert.pem')
    if not (os.path.exists(k) and os.path.exists(c)):
        tk, tc = k + '.%d' % os.getpid(), c + '.%d' % os.getpid()
        _run('genrsa', '-out', tk, '2048')
        _run('req', '-new', '-x509', '-sha256', '-days', '365', '-key', tk, '-subj', '/CN=proxy.front.test', '-out', tc)
        os.rename(tk, k)
        os.rename(tc, c)
    return k, c
