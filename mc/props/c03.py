"""C03 -- incremental HTTP parsing does not depend on segmentation (segmc)."""
from .. import common, segmc, httpgen

PROP = 'C03'


def _imports():
    common.bind_repo()
    from proxy.http.parser import HttpParser, ChunkParser, httpParserTypes, chunkParserStates
    return HttpParser, ChunkParser, httpParserTypes, chunkParserStates


def observable(p):
    hdrs = None if p.headers is None else {k: (v[0], v[1]) for k, v in p.headers.items()}
    return {
        'complete': p.is_complete, 'method': p.method, 'version': p.version, 'code': p.code,
        'reason': p.reason, 'host': p.host, 'port': p.port, 'path': p.path,
        'headers': hdrs or {}, 'body': p.body or b'',
        'remainder': b'' if p.buffer is None else bytes(p.buffer),
    }


def expected(m):
    return {
        'method': m.method, 'version': m.version, 'code': m.code, 'reason': m.reason,
        'headers': {n.lower(): (n, v) for n, v in m.headers}, 'body': m.body,
    }


class ChunkW:
    def __init__(self, cp):
        self.p = cp
        self.rem = b''


def check_http(m):
    """Explore one message through HttpParser; returns dict of results."""
    HttpParser, ChunkParser, types, cstates = _imports()
    ptype = types.REQUEST_PARSER if m.kind == 'request' else types.RESPONSE_PARSER
    exp = expected(m)
    viol = {}

    def note(sym, cuts, obs, detail=None):
        if sym not in viol or len(cuts) < len(viol[sym]['cuts']):
            viol[sym] = {'cuts': list(cuts), 'observed': obs, 'detail': detail}

    def on_state(st, q, cuts):
        if isinstance(st, segmc.Exc):
            note('exception', cuts, st.exc)
            return
        o = observable(st)
        if o['complete'] and q < m.end:
            note('early_complete', cuts, o, 'complete at offset %d < end %d' % (q, m.end))
            return
        if not o['complete'] and q >= m.end:
            note('not_complete_after_last_byte', cuts, o, 'offset %d >= end %d' % (q, m.end))
            return
        if o['complete']:
            for f in ('method', 'version', 'code', 'reason'):
                if o[f] != exp[f]:
                    note('wrong_startline', cuts, o, f)
            if o['headers'] != exp['headers'] and not m.features.get('obs_fold'):
                note('wrong_headers', cuts, o)
            if o['body'] != exp['body']:
                note('wrong_body', cuts, o)
            if o['remainder'] != m.raw[m.end:q]:
                note('wrong_remainder', cuts, o, 'expected remainder %r' % m.raw[m.end:q])

    states, trans, terms = segmc.explore(
        m.raw, lambda: HttpParser(ptype), lambda p, piece: p.parse(memoryview(piece)),
        segmc.canon_obj, on_state)
    # terminal agreement on the observable projection (differential, no ground truth)
    projs = {}
    for st, cuts in terms:
        if isinstance(st, segmc.Exc):
            continue
        o = observable(st)
        projs.setdefault(segmc.canon_obj(o), (cuts, o))
    if len(projs) > 1 and not viol:
        a, b = list(projs.values())[:2]
        note('terminal_disagreement', b[0], b[1], 'vs cuts %r' % (a[0],))
    return {'states': states, 'transitions': trans, 'terminals': len(terms),
            'viol': viol, 'n': len(m.raw)}


def check_chunk(t):
    wire, body, end, trailing, feats = t
    HttpParser, ChunkParser, types, cstates = _imports()
    viol = {}

    def note(sym, cuts, obs, detail=None):
        if sym not in viol or len(cuts) < len(viol[sym]['cuts']):
            viol[sym] = {'cuts': list(cuts), 'observed': obs, 'detail': detail}

    def feed(w, piece):
        r = w.p.parse(memoryview(piece))
        w.rem += bytes(r)

    def obs(w):
        return {'complete': w.p.state == cstates.COMPLETE, 'body': w.p.body, 'remainder': w.rem}

    def on_state(st, q, cuts):
        if isinstance(st, segmc.Exc):
            note('exception', cuts, st.exc)
            return
        o = obs(st)
        if o['complete'] and q < end:
            note('early_complete', cuts, o, 'complete at offset %d < end %d' % (q, end))
        elif not o['complete'] and q >= end:
            note('not_complete_after_last_byte', cuts, o)
        elif not o['complete'] and o['remainder']:
            note('bytes_returned_before_completion', cuts, o)
        elif o['complete']:
            if o['body'] != body:
                note('wrong_body', cuts, o)
            if o['remainder'] != wire[end:q]:
                note('wrong_remainder', cuts, o, 'expected remainder %r' % wire[end:q])

    states, trans, terms = segmc.explore(wire, lambda: ChunkW(ChunkParser()), feed, segmc.canon_obj, on_state)
    return {'states': states, 'transitions': trans, 'terminals': len(terms), 'viol': viol, 'n': len(wire)}


def _unit(u):
    kind, idx = u
    if kind == 'http':
        m = _CORPUS[idx]
        r = check_http(m)
        r['features'] = dict(m.features, parser='HttpParser')
        r['raw'] = m.raw
    else:
        t = _CHUNKS[idx]
        r = check_chunk(t)
        r['features'] = dict(t[4], parser='ChunkParser')
        r['raw'] = t[0]
    r['unit'] = u
    return r


_CORPUS = []
_CHUNKS = []


def run(tier):
    global _CORPUS, _CHUNKS
    rep = common.Report(PROP, tier)
    _CORPUS = httpgen.corpus(tier)
    _CHUNKS = httpgen.chunk_streams(tier)
    units = [('http', i) for i in range(len(_CORPUS))] + [('chunk', i) for i in range(len(_CHUNKS))]
    multi_terminal = 0
    maxn = 0
    for r in common.pmap(_unit, units, chunksize=4):
        rep.add(states=r['states'], transitions=r['transitions'], traces_validated_against_impl=r['transitions'])
        maxn = max(maxn, r['n'])
        if r['terminals'] > 1:
            multi_terminal += 1
        for sym, v in r['viol'].items():
            feats = dict(r['features'], symptom=sym)
            rep.violation(feats, {'message': r['raw'], 'cuts': v['cuts'], 'observed': v['observed'],
                                  'detail': v['detail'], 'parser': r['features']['parser'],
                                  'kind': r['features']['kind']})
    rep.add(messages=len(units), messages_with_more_than_one_terminal_state=multi_terminal,
            longest_message=maxn,
            rule='every message of the structured corpus x ALL 2^(n-1) segmentations, explored as BFS over '
                 '(offset, canonical parser state); a transition is one real parse() call on a deep copy')
    rep.sample({'message': _CORPUS[len(_CORPUS) // 2].raw, 'segmentations': '2^(n-1), all'})
    rep.sample({'chunk_stream': _CHUNKS[len(_CHUNKS) // 2][0]})
    rep.assumptions.append('parse() reads only instance attributes (no globals/clock), so equal attribute '
                           'values imply equal futures (state merging is sound)')
    return rep.finish()


def replay(path):
    import json
    HttpParser, ChunkParser, types, cstates = _imports()
    body = json.load(open(path))
    r = common.unjson(body['replay'])
    msg, cuts = r['message'], r['cuts']
    ps = segmc.pieces(msg, cuts)
    print('pieces:', ps)
    try:
        if r['parser'] == 'HttpParser':
            p = HttpParser(types.REQUEST_PARSER if r['kind'] == 'request' else types.RESPONSE_PARSER)
            for x in ps:
                p.parse(memoryview(x))
            print('observed:', observable(p))
        else:
            w = ChunkW(ChunkParser())
            for x in ps:
                w.rem += bytes(w.p.parse(memoryview(x)))
            print('observed:', {'complete': w.p.state == cstates.COMPLETE, 'body': w.p.body, 'remainder': w.rem})
    except Exception as e:  # noqa
        print('raised:', type(e).__name__, e)
    print('recorded:', r['observed'], r.get('detail'))
    return 0
