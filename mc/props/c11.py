"""C11 -- TLS interception issues a valid per-host certificate and never trusts a bad upstream
(cfgmc: every point of the configuration lattice run live with real TLS on both sides)."""
import itertools
from .. import common, cfgmc, pki, c11point

PROP = 'C11'
PAYLOADS = ['get', 'chunked', 'two', 'big']
PACKINGS = ['whole', 'split_header', 'split_body', 'split_record', 'early_hello']
EXPECT = {
    'get': [('GET', '/a?x=1', '')],
    'chunked': [('POST', '/p', 'abcde')],
    'two': [('GET', '/one', ''), ('POST', '/two', 'body')],
    # 600 kB in each direction through the intercepted session (TLS record layer on both sides)
    'big': [('GET', '/big', ''), ('POST', '/up', c11point.digest(c11point.big_body()).decode())],
}


def want_bodies(want):
    return [c11point.digest(c11point.big_body()).decode() if w[1] == '/big' else 'origin|%s|%s|%s' % w for w in want]


def points(tier):
    out = []
    i = 0
    for host, cert, insecure, optout, cache in itertools.product(
            ('origin.test', '127.0.0.1', '[::1]'), ('trusted', 'selfsigned', 'wrongname', 'expired'),
            (False, True), (False, 'only', 'first', 'last', 'bystander_only'), ('cold', 'warm')):
        if tier == 'quick':
            # rotation chosen so that every (dimension value, packing) and (payload, packing) pair occurs
            combos = [(PAYLOADS[(i + i // 7) % 4], PACKINGS[(2 * i + i // 20) % 5])]
        else:
            combos = list(itertools.product(PAYLOADS, PACKINGS))
        i += 1
        for payload, packing in combos:
            out.append({'host': host, 'cert': cert, 'insecure': insecure, 'optout': optout, 'cache': cache,
                        'payload': payload, 'packing': packing})
    # CONNECT to an IP literal whose Host header names what the (wrong-name) origin certificate is valid for:
    # the certificate still does not name the CONNECT host
    for host, cache, payload in itertools.product(('127.0.0.1', '[::1]'), ('cold', 'warm'), ('get',) if tier == 'quick' else PAYLOADS):
        out.append({'host': host, 'cert': 'wrongname', 'insecure': False, 'optout': False, 'cache': cache,
                    'payload': payload, 'packing': 'whole', 'host_header': 'certname'})
    # a bad origin stays refused on EVERY connection, also towards a client that would accept any certificate
    # (three connections to the same host, then one under its other name)
    for host, cert in itertools.product(('origin.test', '127.0.0.1', '[::1]'), ('selfsigned', 'wrongname', 'expired')):
        out.append({'host': host, 'cert': cert, 'insecure': False, 'optout': False, 'cache': 'warm', 'payload': 'get',
                    'packing': 'whole', 'gullible_client': True})
    # a host name longer than an X.509 commonName can hold (64): it is named by the subjectAltName like any other
    for cert, insecure, optout, cache in itertools.product(('trusted', 'wrongname', 'selfsigned'), (False, True), (False, 'only'),
                                                           ('cold', 'warm')):
        if tier == 'quick' and (insecure, optout) == (True, 'only'):
            continue
        out.append({'host': 'long', 'cert': cert, 'insecure': insecure, 'optout': optout, 'cache': cache,
                    'payload': 'get' if cache == 'cold' else 'two', 'packing': 'whole'})
    return out


def judge(pt, r):
    v = []
    if 'harness_error' in r:
        return [('harness_error', r)]
    if 'exception' in r:
        return [('point_raised', {'exception': r['exception'], 'traceback': r.get('traceback')})]
    bad_cert = pt['cert'] != 'trusted'
    pt = dict(pt, optout_kind=pt['optout'], optout=pt['optout'] not in (False, 'bystander_only'))
    conns = r['connections']
    origin = r['origin']
    origin_reqs = [q for o in origin for q in o['requests']]
    origin_plain = sum(o['plaintext_len'] for o in origin)
    want = EXPECT[pt['payload']]
    if r.get('executor_alive_after_stop'):
        v.append(('executor_did_not_stop', {}))
    for ci, c in enumerate(conns):
        where = {'connection': ci, 'obs': {k: (x if k != 'peer_cert_der' else x[:40]) for k, x in c.items()}}
        hs_ok = c.get('client_handshake') == 'ok'
        if pt['optout']:
            # opaque tunnel: the client talks TLS to the ORIGIN itself
            if hs_ok:
                if c.get('peer_cert_der') != r['origin_cert_der']:
                    v.append(('opted_out_connection_was_intercepted', where))
                if c.get('response_bodies') != want_bodies(want):
                    v.append(('tunnelled_exchange_not_intact', where))
            elif not bad_cert:
                v.append(('opted_out_tunnel_to_good_origin_failed', where))
            continue
        if bad_cert and not pt['insecure']:
            if c.get('client_app_bytes', 0) or c.get('response_bodies'):
                v.append(('application_data_reached_client_despite_bad_upstream_certificate', where))
            continue
        # interception expected to work
        if not hs_ok:
            v.append(('client_rejects_generated_certificate', where))
            continue
        if c.get('peer_cert_der') == r['origin_cert_der']:
            v.append(('client_was_shown_the_origin_certificate', where))
        if c.get('response_bodies') != want_bodies(want):
            v.append(('response_not_intact', where))
    if not pt['optout'] and bad_cert and not pt['insecure']:
        if origin_reqs or origin_plain:
            v.append(('application_data_reached_origin_despite_bad_certificate',
                      {'origin': [(o['handshake'], o['plaintext_len']) for o in origin]}))
    if not pt['optout'] and (not bad_cert or pt['insecure']) and all(c.get('client_handshake') == 'ok' for c in conns):
        got = [(q['method'], q['target'], q['body']) for q in origin_reqs]
        if got != want * len(conns):
            v.append(('origin_did_not_receive_the_requests_intact', {'got': got, 'want': want * len(conns)}))
        for q in origin_reqs:
            h = {n.lower(): x for n, x in q['headers']}
            if 'host' not in h or (q['target'].startswith('/a') and h.get('x-a') != 'b'):
                v.append(('inner_request_headers_changed', {'headers': q['headers']}))
    return v


def run(tier):
    pki.ensure()
    rep = common.Report(PROP, tier)
    pts = points(tier)
    n = 0
    herr = 0
    seen = set()
    cstats = {}
    for pt, r, verdicts in cfgmc.run_judged('mc.c11point', pts, judge, timeout=300, stats=cstats):
        n += 1
        if n % 31 == 1:
            rep.sample({'point': pt, 'connections': [{k: v for k, v in c.items() if k != 'peer_cert_der'} for c in r.get('connections', [])],
                        'origin': r.get('origin')})
        for sym, detail in verdicts:
            if sym == 'harness_error':
                herr += 1
            hk = {'origin.test': 'name', 'long': 'name_longer_than_a_common_name', '127.0.0.1': 'ipv4'}.get(pt['host'], 'ipv6')
            feats = {'symptom': sym, 'host_kind': hk, 'cert': pt['cert'], 'insecure': pt['insecure'], 'optout': pt['optout'] not in (False, 'bystander_only')}
            k = tuple(sorted(feats.items()))
            if k in seen:
                continue
            seen.add(k)
            rep.violation(feats, {'point': pt, 'detail': detail})
    rep.add(points_rerun_for_confirmation=cstats.get('points_rerun_for_confirmation', 0),
            points_not_reproduced=cstats.get('points_not_reproduced', 0))
    rep.add(states=n, transitions=n * 2, traces_validated_against_impl=n, live_runs=n, harness_errors=herr,
            rule='CONNECT host {DNS name, IPv4 literal, IPv6 literal} x origin certificate {trusted, self-signed, wrong name, '
                 'expired} x --insecure-tls-interception x plugin list {none, opt-out only, opt-out then bystander, bystander then opt-out, bystander only} x certificate cache {cold, warm} = 240 points (+ IP-literal targets whose CONNECT Host header names what a wrong-name certificate is valid for); '
                 'thorough additionally x inner payload {GET, chunked POST, two requests, 600 kB down + 600 kB up} x inner packing {whole, split in header, '
                 'split in body, one TLS record cut into three TCP segments, ClientHello coalesced with the CONNECT head (opted-out tunnels)}; quick rotates payload/packing over the 240 points')
    rep.assumptions.append('handshakes are blocking calls inside the SUT: configurations and inputs are enumerated, '
                           'interleavings inside the handshakes are not')
    if tier == 'quick':
        rep.coverage['note'] = 'all 240 configuration points; payload x packing rotated rather than multiplied'
    return rep.finish()


def replay(path):
    import json
    body = json.load(open(path))
    pt = body['replay']['point']
    for p, r in cfgmc.run_points('mc.c11point', [pt], jobs=1):
        r2 = json.loads(json.dumps(r))
        for c in r2.get('connections', []):
            c.pop('peer_cert_der', None)
        r2.pop('origin_cert_der', None)
        print(json.dumps(r2, indent=1)[:4000])
        print(judge(p, r))
    return 0
