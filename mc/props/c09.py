"""C09 -- plugins run in configured order with the documented chaining semantics (netmc over
plugin programs).  Plugin lists of 1..3 recording plugins, each with one behaviour for one hook,
every assignment x every order x every way the connection can end; a small reference
interpreter of the documented chain predicts call order, value threading, short-circuits,
connect log and byte streams."""
import itertools
from .. import netmc, netcheck, oracles, plugins
from ..netmc import Scenario, HttpOrigin, RawOrigin

PROP = 'C09'
R1 = b'GET http://h.test/one HTTP/1.1\r\nHost: h.test\r\n\r\n'
R2 = b'GET http://h.test/two HTTP/1.1\r\nHost: h.test\r\n\r\n'
R1AUTH = b'GET http://h.test/one HTTP/1.1\r\nHost: h.test\r\nProxy-Authorization: Basic dTpw\r\n\r\n'
OK = b'HTTP/1.1 200 OK\r\nContent-Length: 2\r\n\r\nok'

# (hook, action, arg)
OPTIONS = [
    None,                                                   # all hooks pass
    ('before_upstream_connection', 'modify', None),
    ('before_upstream_connection', 'drop', None),
    ('before_upstream_connection', 'reject', (418, b'teapot-bu')),
    ('handle_client_request', 'modify', None),
    ('handle_client_request', 'drop', None),
    ('handle_client_request', 'reject', (403, b'denied-hcr')),
    ('handle_upstream_chunk', 'modify', None),              # arg filled per plugin index
    ('handle_upstream_chunk', 'drop', None),
    ('on_access_log', 'modify', None),
    ('on_access_log', 'drop', None),
    ('resolve_dns', 'modify', '10.0.0.7'),
    ('before_upstream_connection', 'replace', None),        # returns a NEW request object
    ('handle_client_request', 'replace', None),
    ('handle_client_request', 'drop_path', b'/two'),        # drops the SECOND request of the connection only
]
R3 = b'GET http://h.test/three HTTP/1.1\r\nHost: h.test\r\n\r\n'
CHUNK_MODS = [(b'ok', b'oA'), (b'o', b'B'), (b'A', b'ok')]    # order-sensitive replacements

ENDINGS = ['normal', 'client-abort-after-R1', 'client-abort-mid-R1', 'client-close-after-resp1',
           'upstream-closes-on-accept', 'upstream-closes-after-resp1', 'connect-refused', 'dns-fail']


def beh_for(i, opt):
    if opt is None:
        return {}
    hook, action, arg = opt
    if hook == 'handle_upstream_chunk' and action == 'modify':
        arg = CHUNK_MODS[i]
    return {hook: (action, arg)}


def programs(tier):
    n_max = 2 if tier == 'quick' else 3
    for n in range(1, n_max + 1):
        for combo in itertools.product(range(len(OPTIONS)), repeat=n):
            if n == 3 and sum(1 for c in combo if c) < 2 and combo != (0, 0, 0):
                continue    # n=3 adds nothing over n<=2 unless at least two plugins are active
            yield combo


def scenarios(tier):
    return Lazy(tier)


class Lazy:
    def __init__(self, tier):
        self.tier = tier
        self.index = []
        for combo in programs(tier):
            for auth in (False, True, 'listed', 'pool'):      # 'pool': no auth, but --enable-conn-pool
                # 'listed': --basic-auth on AND the auth plugin named explicitly after the user plugins
                if auth and (tier == 'quick' and len(combo) > 1):
                    continue
                if auth == 'listed' and len(combo) > 2:
                    continue
                ends = ENDINGS if not auth else ['normal', 'bad-credentials']
                if auth == 'pool':
                    ends = ['normal', 'client-close-after-resp1', 'upstream-closes-after-resp1', 'upstream-closes-on-accept',
                            'client-abort-after-R1']
                for e in ends:
                    self.index.append((combo, auth, e))

        # ... and every way it can end *abruptly*: one injected I/O error (reset, broken pipe, failing
        # shutdown, connect failure) at every socket call, or one postponed peer action (d <= 1)
        fcombos = [(c,) for c in range(len(OPTIONS))] + [(0, 0), (9, 0), (0, 9), (4, 7), (10, 0), (0, 10)]
        if tier == 'thorough':
            fcombos += [c for c in itertools.product(range(len(OPTIONS)), repeat=2) if c not in fcombos]
        for combo in fcombos:
            for e in ('normal', 'client-close-after-resp1', 'upstream-closes-after-resp1'):
                self.index.append((combo, False, e + '+faults'))

        self.extra = followup_rejections()

    def __len__(self):
        return len(self.index) + len(self.extra)

    def name(self, k):
        if k >= len(self.index):
            return self.extra[k - len(self.index)].name
        combo, auth, e = self.index[k]
        return '%s/%s/%s' % ('.'.join(map(str, combo)), {'listed': 'authlisted', 'pool': 'pool', True: 'auth', False: 'noauth'}[auth], e)

    def by_name(self, name):
        for k in range(len(self.index)):
            if self.name(k) == name:
                return self[k]

    def __getitem__(self, k):
        if k >= len(self.index):
            return self.extra[k - len(self.index)]
        combo, auth, e = self.index[k]
        faulty = e.endswith('+faults')
        e = e.replace('+faults', '')
        behs = [beh_for(i, OPTIONS[c]) for i, c in enumerate(combo)]
        klasses = [plugins.recorder('P%d' % i, b) for i, b in enumerate(behs)]
        if auth == 'listed':
            klasses = klasses + [b'proxy.http.proxy.auth.AuthPlugin']
        pool = auth == 'pool'
        if pool:
            auth = False
        fa = ['--threadless'] + (['--basic-auth', 'u:p'] if auth else []) + (['--enable-conn-pool'] if pool else [])
        r1 = R1AUTH if auth and e != 'bad-credentials' else R1
        origins = {('10.0.0.1', 80): lambda: HttpOrigin([], respond=lambda c, kk, r: [OK]),
                   ('10.0.0.7', 80): lambda: HttpOrigin([], respond=lambda c, kk, r: [OK])}
        dns = {'h.test': '10.0.0.1'}
        net = {}
        if e == 'normal' or e == 'bad-credentials':
            script = [('send', r1), ('wait_idle',), ('send', R2), ('wait_idle',), ('close',)]
            if any(OPTIONS[c] and OPTIONS[c][1] == 'drop_path' for c in combo):
                script = [('send', r1), ('wait_idle',), ('send', R2), ('wait_idle',), ('send', R3), ('wait_idle',), ('close',)]
        elif e == 'client-abort-after-R1':
            script = [('send', r1), ('close',)]
        elif e == 'client-abort-mid-R1':
            script = [('send', r1[:20]), ('close',)]
        elif e == 'client-close-after-resp1':
            script = [('send', r1), ('wait_idle',), ('close',)]
        elif e == 'upstream-closes-on-accept':
            script = [('send', r1), ('wait_idle',), ('close',)]
            origins = {a: (lambda: RawOrigin(greeting=[], finally_='close')) for a in origins}
        elif e == 'upstream-closes-after-resp1':
            script = [('send', r1), ('wait_idle',), ('close',)]
            origins = {a: (lambda: HttpOrigin([], respond=lambda c, kk, r: [OK], then={0: 'close'})) for a in origins}
        elif e == 'connect-refused':
            script = [('send', r1), ('wait_idle',), ('close',)]
            origins = {}
        else:   # dns-fail
            script = [('send', r1), ('wait_idle',), ('close',)]
            dns = {}
        return Scenario(self.name(k), fa, flags_opts={'plugins': klasses}, mode='local',
                        clients=[dict(script=script)], origins=origins, dns=dns, net=net, kinds='AF' if faulty else '', horizon=600,
                        features={'n_plugins': len(combo), 'auth': bool(auth), 'auth_plugin_listed': auth == 'listed', 'conn_pool': pool, 'resolve_dns_overridden': any(OPTIONS[c] and OPTIONS[c][0] == 'resolve_dns' for c in combo), 'ending': e + ('+faults' if faulty else ''),
                                  '_bound': 1 if faulty else 0, '_faulty': faulty,
                                  'hooks': ','.join(sorted(set(OPTIONS[c][0] + ':' + OPTIONS[c][1] for c in combo if c))),
                                  '_behs': behs})


BIG1 = b'HTTP/1.1 200 OK\r\nContent-Length: 30000\r\n\r\n' + bytes(65 + (i * 7) % 26 for i in range(30000))


def followup_rejections():
    """A plugin turns down the SECOND request of a connection (403) while output of the first is still on its way to
    the client: (a) the whole first response already sits in the proxy's buffer for a client that reads late,
    (b) the origin is still sending it.  The client must get response 1 intact, then exactly the plugin's 403."""
    out = []
    klass = plugins.recorder('gate2', {'handle_client_request': ('reject_path', (b'/two', 403, b'no-two'))})
    pieces = [BIG1[i:i + 3000] for i in range(0, len(BIG1), 3000)]
    for (nm, script, origin) in (
            ('buffered-for-late-reader', [('stop_reading',), ('send', R1), ('wait_idle',), ('send', R2), ('wait_idle',), ('start_reading',), ('wait_eof',)],
             lambda: HttpOrigin([[BIG1]])),
            ('while-origin-still-sends', [('send', R1), ('wait_recv', 2000), ('send', R2), ('wait_eof',)],
             lambda: HttpOrigin([pieces]))):
        out.append(Scenario('followup-rejected/%s' % nm, ['--threadless'], flags_opts={'plugins': [klass]}, mode='local',
                            clients=[dict(script=script)], origins={('10.0.0.1', 80): origin}, dns={'h.test': '10.0.0.1'},
                            kinds='', horizon=3000,
                            features={'n_plugins': 1, 'auth': False, 'auth_plugin_listed': False, 'conn_pool': False,
                                      'resolve_dns_overridden': False, 'ending': 'followup-rejected-' + nm, 'hooks': 'handle_client_request:reject_path',
                                      '_bound': 0, '_faulty': False, '_behs': [], '_sockbuf': 4096, '_special': 'followup_rejection'}))
    return out


def check_followup_rejection(w):
    if w.died or w.run_exc:
        return [{'symptom': 'executor_died', 'features': {}, 'detail': w.run_exc}]
    c = w.clients[0]
    rx = bytes(c.rx)
    want = BIG1
    out = []
    res, rest = oracles.parse_responses(rx, [b'GET', b'GET'], eof=c.eof)
    ok = [r for r in res if r['ok']]
    detail = {'rx_len': len(rx), 'statuses': [r.get('status') for r in res], 'eof': c.eof,
              'first_403_at': rx.find(b'HTTP/1.1 403'), 'response_1_len': len(want)}
    if not rx.startswith(want):
        out.append({'symptom': 'rejection_response_spliced_into_a_response_in_flight' if b'HTTP/1.1 403' in rx[:len(want)]
                    else 'response_in_flight_lost_when_followup_rejected', 'features': {}, 'detail': detail})
        return out
    if len(ok) < 2 or ok[1]['status'] != 403 or ok[1]['body'] != b'no-two':
        out.append({'symptom': 'client_did_not_get_the_rejection_response', 'features': {}, 'detail': detail})
    elif rest or not c.eof:
        out.append({'symptom': 'connection_not_closed_after_rejection', 'features': {}, 'detail': dict(detail, rest=rest[:60])})
    reached = [t for o in w.origin_conns for t in [q['target'] for q in getattr(o, 'requests', [])]]
    if b'/two' in reached:
        out.append({'symptom': 'rejected_request_forwarded', 'features': {}, 'detail': dict(detail, reached=reached)})
    return out


def stopper(beh, hook, path=None):
    act = beh.get(hook, ('pass', None))
    a = act[0]
    if hook == 'resolve_dns':
        return a == 'modify'
    if a == 'drop_path':
        return path is not None and path.split(b'?')[0].endswith(act[1])
    return a in ('drop', 'reject')


def expected_prefix(behs, hook, path=None):
    out = []
    for i, b in enumerate(behs):
        out.append('P%d' % i)
        if stopper(b, hook, path):
            break
    return out


def rounds(rec, hook):
    """Split the calls of one hook into maximal runs with increasing plugin index."""
    rs = []
    cur = []
    last = -1
    for (name, h, info) in rec:
        if h != hook:
            continue
        i = int(name[1:])
        if i <= last:
            rs.append(cur)
            cur = []
        cur.append((name, info))
        last = i
    if cur:
        rs.append(cur)
    return rs


def chain_request(behs, hook, tags, path=b'/one'):
    """Reference interpreter for a request chain: returns (outcome, tags, rejecting plugin)."""
    tags = set(tags)
    for i, b in enumerate(behs):
        a = b.get(hook, ('pass', None))
        if a[0] in ('modify', 'replace'):
            tags.add(('P%d' % i).encode())
        elif a[0] == 'drop' or (a[0] == 'drop_path' and path.endswith(a[1])):
            return 'drop', tags, i
        elif a[0] == 'reject':
            return 'reject', tags, i
    return 'pass', tags, None


def chain_chunk(behs, data):
    for i, b in enumerate(behs):
        a = b.get('handle_upstream_chunk', ('pass', None))
        if a[0] == 'modify':
            data = data.replace(a[1][0], a[1][1])
        elif a[0] == 'drop':
            return None
    return data


def check(w):
    f = w.scn.features
    if f.get('_special') == 'followup_rejection':
        return check_followup_rejection(w)
    behs = f['_behs']
    e = f['ending']
    if w.died or w.run_exc:
        return [{'symptom': 'executor_died', 'features': {}, 'detail': w.run_exc}]
    rec = getattr(w, 'rec', [])
    c = w.clients[0]
    out = []
    detail = {'rec': rec[:30], 'connect_log': w.connect_log, 'rx': bytes(c.rx)[:200]}

    def bad(sym, **kw):
        out.append({'symptom': sym, 'features': {k: v for k, v in kw.items() if k == 'hook'}, 'detail': dict(detail, **kw)})

    first_complete = e != 'client-abort-mid-R1'
    authed = e != 'bad-credentials'
    faulty = f.get('_faulty')
    if faulty:
        e = e.replace('+faults', '')
        # an injected error may hit before the request was read: "completely received" is then what the
        # chain itself witnessed (before_upstream_connection is the first hook of a complete request)
        first_complete = bool(rounds(rec, 'before_upstream_connection'))
    # ---- 1. order and short-circuit, for every hook, in every round
    for hook in ('before_upstream_connection', 'handle_client_request', 'handle_upstream_chunk', 'on_access_log',
                 'resolve_dns', 'handle_client_data', 'on_upstream_connection_close'):
        exp = ['P%d' % i for i in range(len(behs))] if hook == 'on_upstream_connection_close' \
            else expected_prefix(behs, hook)
        for r in rounds(rec, hook):
            names = [n for n, _i in r]
            if hook in ('before_upstream_connection', 'handle_client_request') and r and isinstance(r[0][1], tuple):
                exp = expected_prefix(behs, hook, r[0][1][1])      # per request: a plugin may drop one path only
            if names != exp:
                bad('plugin_chain_order_or_short_circuit_wrong', hook=hook, got=names, want=exp)
                break
    # ---- 2. value threading inside request chains
    for hook in ('before_upstream_connection', 'handle_client_request'):
        for r in rounds(rec, hook):
            seen_mod = set()
            for name, info in r:
                i = int(name[1:])
                tags = set(info[2])
                need = {t for t in seen_mod}
                if not need <= tags:
                    bad('request_not_threaded_through_chain', hook=hook, plugin=name, tags=sorted(tags), need=sorted(need))
                if behs[i].get(hook, ('pass',))[0] in ('modify', 'replace'):
                    seen_mod.add(name.encode())
    # ---- reference interpretation of the first request
    bu_called = bool(rounds(rec, 'before_upstream_connection'))
    if first_complete and authed and not bu_called:
        bad('request_hooks_never_ran')
    if not authed and [x for x in rec if x[1] in ('before_upstream_connection', 'handle_client_request', 'resolve_dns')]:
        bad('request_hook_ran_for_unauthenticated_request')
    deviated = any(w.choices)
    if first_complete and authed and not (faulty and deviated):
        o1, tags1, who1 = chain_request(behs, 'before_upstream_connection', ())
        expect_connect = o1 == 'pass'
        dns_ip = None
        for b in behs:
            a = b.get('resolve_dns', ('pass', None))
            if a[0] == 'modify':
                dns_ip = a[1]
                break
        if expect_connect and e != 'dns-fail' or (expect_connect and dns_ip):
            want_addr = (dns_ip or '10.0.0.1', 80)
            got_addrs = [(a[1][0], a[1][1]) for a in w.connect_log]
            if got_addrs[:1] != [want_addr]:
                bad('connect_target_not_as_chain_decided', got=got_addrs, want=want_addr)
        if not expect_connect and w.connect_log:
            bad('upstream_contacted_although_chain_said_no', outcome=o1)
        reject = None
        if o1 == 'reject':
            reject = behs[who1]['before_upstream_connection'][1]
        connected = any(a[2] == 'accept' for a in w.connect_log)
        o2 = None
        if o1 != 'reject' and (connected or o1 == 'drop'):
            o2, tags2, who2 = chain_request(behs, 'handle_client_request', tags1)
            if o2 == 'reject':
                reject = behs[who2]['handle_client_request'][1]
        # origin view of request 1
        origin_reqs = []
        for oc in w.origin_conns:
            origin_reqs += getattr(oc, 'requests', [])
        if reject is not None:
            r = oracles.parse_response(bytes(c.rx), b'GET', eof=c.eof)
            if e == 'client-abort-after-R1':
                pass        # the client left without reading: nothing to observe on its side
            elif not (r['ok'] and r['status'] == reject[0] and r['body'] == reject[1] and not r['trailing']):
                bad('rejection_response_not_exactly_as_chosen', want=reject, h11=r['error'], status=r['status'])
            if e in ('normal', 'client-close-after-resp1') and not c.eof:
                bad('connection_open_after_rejection')
            if origin_reqs:
                bad('request_forwarded_although_rejected')
            if o1 == 'reject' and w.connect_log:
                bad('upstream_contacted_although_rejected_before_connection')
        elif o1 == 'pass' and connected and o2 == 'drop':
            if origin_reqs and e in ('normal',):
                # the dropped first request must not be forwarded
                if any(rq['target'] == b'/one' for rq in origin_reqs):
                    bad('dropped_request_was_forwarded')
        elif o1 == 'pass' and connected and o2 == 'pass' and e in ('normal', 'client-close-after-resp1',
                                                                    'upstream-closes-after-resp1'):
            one = [rq for rq in origin_reqs if rq['target'] == b'/one']
            if not one:
                bad('request_not_forwarded')
            else:
                got_tags = sorted(v for n, v in one[0]['headers'] if n.lower().startswith(b'x-tag-'))
                if got_tags != sorted(tags2):
                    bad('forwarded_request_lacks_plugin_modifications', got=got_tags, want=sorted(tags2))
            # response stream: handle_upstream_chunk chain applied in order (responses arrive as one chunk each)
            n_resp = 2 if e == 'normal' else 1
            want_stream = b''
            for _ in range(n_resp):
                x = chain_chunk(behs, OK)
                want_stream += x if x is not None else b''
            if bytes(c.rx) != want_stream:
                bad('client_stream_not_as_chunk_chain_prescribes', got=bytes(c.rx), want=want_stream)
    # ---- 2b. a plugin that drops ONE follow-up request suppresses that request only
    if e == 'normal' and any(b.get('handle_client_request', ('pass',))[0] == 'drop_path' for b in behs) and authed \
            and not (faulty and any(w.choices)) \
            and not any(stopper(b, h) for b in behs for h in ('before_upstream_connection', 'handle_client_request')):
        seen_paths = [info[1] for (_n, h, info) in rec if h == 'handle_client_request' and _n == 'P0']
        if seen_paths != [b'/one', b'/two', b'/three']:
            bad('request_after_a_dropped_followup_never_reached_the_plugins', hook='handle_client_request', got=seen_paths)
        origin_targets = []
        for oc in w.origin_conns:
            origin_targets += [rq['target'] for rq in getattr(oc, 'requests', [])]
        if origin_targets != [b'/one', b'/three']:
            bad('dropping_one_followup_request_changed_what_else_is_forwarded', got=origin_targets, want=[b'/one', b'/three'])
    # ---- 3. lifecycle callbacks: exactly once per connection whose first request completed
    if first_complete:
        al = rounds(rec, 'on_access_log')
        cl = rounds(rec, 'on_upstream_connection_close')
        if len(al) != 1:
            bad('access_log_chain_not_exactly_once', hook='on_access_log', times=len(al))
        if len(cl) != 1:
            bad('connection_close_hook_not_exactly_once', hook='on_upstream_connection_close', times=len(cl))
    return out


def run(tier):
    lz = scenarios(tier)
    return netcheck.run(PROP, tier, lz, check, 0, None, det_every=211, flagsets=[],
                        rule='plugin programs: every list of 1..n recording plugins (n=2 quick, 3 thorough), each with one '
                             'of 15 (hook, behaviour) options, every order, x 8 endings (+ auth on: good / bad credentials); plus, for every single-plugin program and a set of '
                             'two-plugin programs, every single injected socket error / postponed peer action (d <= 1) with the '
                             'order, threading and exactly-once lifecycle rules as oracle; '
                             'one execution of the real executor each; reference interpreter of the documented chain as oracle')


def replay(path):
    import json
    body = json.load(open(path))
    name = body['replay']['scenario']
    scn = scenarios('thorough').by_name(name) or scenarios('quick').by_name(name)
    return netcheck.replay(path, [scn], check)
