"""C16 -- WebSocket frames round-trip for every size and flag combination (seqmc-style small-scope
exhaustive enumeration against an independent RFC 6455 encoder)."""
import base64
import hashlib
import itertools
import struct
from .. import common

PROP = 'C16'
GUID = b'258EAFA5-E914-47DA-95CA-C5AB0DC85B11'


def ref_encode(fin, r1, r2, r3, opcode, mask, payload):
    """RFC 6455 5.2, written from the RFC text."""
    b0 = (0x80 if fin else 0) | (0x40 if r1 else 0) | (0x20 if r2 else 0) | (0x10 if r3 else 0) | (opcode & 0x0f)
    n = len(payload)
    mbit = 0x80 if mask is not None else 0
    if n <= 125:
        head = bytes([b0, mbit | n])
    elif n <= 0xffff:
        head = bytes([b0, mbit | 126]) + n.to_bytes(2, 'big')
    else:
        head = bytes([b0, mbit | 127]) + n.to_bytes(8, 'big')
    if mask is not None:
        body = bytes(payload[i] ^ mask[i % 4] for i in range(n)) if n < 4096 else _xor(payload, mask)
        return head + mask + body
    return head + payload


def _xor(payload, mask):
    m = (mask * (len(payload) // 4 + 1))[:len(payload)]
    return (int.from_bytes(payload, 'big') ^ int.from_bytes(m, 'big')).to_bytes(len(payload), 'big')


def payload_of(n):
    return bytes((i * 7 + 3) & 0xff for i in range(n)) if n < 5000 else (bytes(range(256)) * (n // 256 + 1))[:n]


def cases(tier):
    lengths = list(range(0, 131)) + list(range(65530, 65541)) + [70000] + ([1 << 20] if tier == 'thorough' else [])
    masks = [None, b'\x00\x00\x00\x00', b'\x01\x02\x03\x04', b'\xff\x00\xaa\x55']
    trailing = [b'', b'\x81', b'\x81\x02hi']
    flagsets = list(itertools.product((False, True), repeat=4))
    opcodes = list(range(16))
    for n in lengths:
        small = n <= 130
        for mask in masks:
            for tr in trailing:
                if small:
                    combos = itertools.product(flagsets, opcodes)
                else:
                    combos = [((True, False, False, False), 2), ((False, True, True, True), 0), ((True, True, False, True), 10)]
                for (fin, r1, r2, r3), op in combos:
                    if small and tier == 'quick' and (n % 9 not in (0, 1)) and n not in (124, 125, 126, 127, 128) \
                            and ((fin, r1, r2, r3) != (True, False, False, False) or op not in (1, 2)):
                        continue
                    yield (fin, r1, r2, r3, op, mask, n, tr)


def run(tier):
    common.bind_repo()
    from proxy.http.websocket.frame import WebsocketFrame
    rep = common.Report(PROP, tier)
    n_cases = 0
    seen = set()

    def bad(sym, case, detail):
        fin, r1, r2, r3, op, mask, n, tr = case
        lenclass = 'zero' if n == 0 else ('le125' if n <= 125 else ('16bit' if n <= 0xffff else '64bit'))
        feats = {'symptom': sym, 'length_class': lenclass, 'masked': mask is not None, 'trailing': bool(tr)}
        k = tuple(sorted(feats.items()))
        if k in seen:
            return
        seen.add(k)
        rep.violation(feats, {'case': {'fin': fin, 'rsv': [r1, r2, r3], 'opcode': op, 'mask': mask, 'length': n,
                                       'trailing': tr}, 'detail': detail})

    for case in cases(tier):
        fin, r1, r2, r3, op, mask, n, tr = case
        n_cases += 1
        payload = payload_of(n)
        want = ref_encode(fin, r1, r2, r3, op, mask, payload)
        f = WebsocketFrame()
        f.fin, f.rsv1, f.rsv2, f.rsv3, f.opcode = fin, r1, r2, r3, op
        f.masked = mask is not None
        f.mask = mask
        f.data = payload
        try:
            got = f.build()
        except Exception as e:   # noqa
            bad('build_raised', case, '%s: %s' % (type(e).__name__, e))
            got = None
        if got is not None and got != want:
            bad('encoding_differs_from_rfc6455', case, {'got': got[:24], 'want': want[:24], 'got_len': len(got), 'want_len': len(want)})
        # decode the REFERENCE encoding (so that decoder faults are not masked by encoder faults)
        g = WebsocketFrame()
        try:
            rest = g.parse(want + tr)
        except Exception as e:   # noqa
            bad('parse_raised', case, '%s: %s' % (type(e).__name__, e))
            continue
        fields = (g.fin, g.rsv1, g.rsv2, g.rsv3, g.opcode, g.masked, g.payload_length, g.data or b'')
        exp = (fin, r1, r2, r3, op, mask is not None, n, payload)
        if fields != exp:
            bad('parsed_fields_differ', case, {'got': [x if not isinstance(x, bytes) else x[:16] for x in fields],
                                               'want': [x if not isinstance(x, bytes) else x[:16] for x in exp]})
        if mask is not None and g.mask != mask:
            bad('parsed_mask_differs', case, {'got': g.mask, 'want': mask})
        if rest != tr:
            bad('remainder_not_exactly_the_following_bytes', case, {'got': rest[:16], 'want': tr})
    # all 2-frame streams over a 12-frame sub-alphabet
    alpha = []
    for n in (0, 1, 125, 126):
        for mask in (None, b'\x01\x02\x03\x04'):
            alpha.append((True, False, False, False, 1, mask, n))
    alpha += [(False, False, False, False, 0, None, 3), (True, False, False, False, 8, None, 2),
              (True, False, False, False, 9, b'\xaa\xbb\xcc\xdd', 0), (True, False, False, False, 10, None, 65536)]
    for a, b in itertools.product(alpha, repeat=2):
        n_cases += 1
        stream = ref_encode(*a[:6], payload_of(a[6])) + ref_encode(*b[:6], payload_of(b[6]))
        try:
            g = WebsocketFrame()
            rest = g.parse(stream)
            first = (g.opcode, g.data or b'')
            g2 = WebsocketFrame()
            rest2 = g2.parse(rest)
            second = (g2.opcode, g2.data or b'')
        except Exception as e:   # noqa
            bad('parse_raised', a + (b'<second frame>',), '%s: %s' % (type(e).__name__, e))
            continue
        if first != (a[4], payload_of(a[6])) or second != (b[4], payload_of(b[6])) or rest2 != b'':
            bad('two_frame_stream_misparsed', a + (b'<second frame>',), {'first': first[0], 'second': second[0], 'rest': len(rest2)})
    # accept token
    keys = [b'', b'dGhlIHNhbXBsZSBub25jZQ==', b'\x00', b'\xff' * 16, b'a' * 64] + [bytes([i]) * (i % 5 + 1) for i in range(59)]
    for k in keys:
        n_cases += 1
        want = base64.b64encode(hashlib.sha1(k + GUID).digest())
        try:
            got = WebsocketFrame.key_to_accept(k)
        except Exception as e:  # noqa
            got = repr(e)
        if got != want:
            rep.violation({'symptom': 'accept_token_wrong'}, {'key': k, 'got': got, 'want': want})
    if b's3pPLMBiTxaQ9kYGzzhZRbK+xOo=' != base64.b64encode(hashlib.sha1(b'dGhlIHNhbXBsZSBub25jZQ==' + GUID).digest()):
        raise AssertionError('reference accept computation does not reproduce the RFC 6455 example')
    rep.add(states=n_cases, transitions=n_cases, traces_validated_against_impl=n_cases,
            rule='16 flag combinations x 16 opcodes x {unmasked, 3 keys} x payload lengths {0..130, 65530..65540, 70000 (,1 MiB)} '
                 'x 3 trailing strings (thinned in the quick tier away from the thresholds); all 2-frame streams over a '
                 '12-frame alphabet; 64 handshake keys; reference = independent RFC 6455 encoder')
    rep.sample({'frame': {'fin': True, 'opcode': 2, 'mask': '01020304', 'length': 65536, 'trailing': '8102 6869'}})
    return rep.finish()


def replay(path):
    import json
    common.bind_repo()
    from proxy.http.websocket.frame import WebsocketFrame
    body = json.load(open(path))
    c = common.unjson(body['replay']['case'])
    print('case', c, 'recorded', body['replay']['detail'])
    f = WebsocketFrame()
    f.fin, (f.rsv1, f.rsv2, f.rsv3), f.opcode = c['fin'], c['rsv'], c['opcode']
    f.masked, f.mask, f.data = c['mask'] is not None, c['mask'], payload_of(c['length'])
    try:
        print('build ->', f.build()[:24])
    except Exception as e:  # noqa
        print('build raised', type(e).__name__, e)
    return 0
