"""C06 -- any input yields service, a well-formed error response, or a clean close.

(1) netmc: bounded-exhaustive token sequences (every sequence of <= L tokens) plus truncations /
    concatenations of valid requests, each under several packings and two configurations, driven
    through the real executor; the client stream is judged by h11.
(2) every response the proxy generates itself, over an argument grid, judged by h11.
"""
import itertools
from .. import common, netmc, netcheck, oracles, plugins
from ..netmc import Scenario, HttpOrigin, RawOrigin

PROP = 'C06'
CRLF = b'\r\n'
TOKENS = [b'GET', b'CONNECT', b'FOO', b' ', b'/', b'http://h/', b'ftp://h/', b'h:443', b'HTTP/1.1', b'HTTP/9',
          CRLF, b'Host: h', b'Content-Length: 3', b'Content-Length: -1', b'Content-Length: x',
          b'Transfer-Encoding: chunked', b'zz', b'\xff', b'abc']
FRAMING = [b'Content-Length: 3', b'Content-Length: 0', b'Content-Length: 5', b'Content-Length: -1', b'Content-Length: +3',
           b'Content-Length: 3 ', b'Transfer-Encoding: chunked', b'Transfer-Encoding: gzip, chunked',
           b'Transfer-Encoding: chunked, gzip']
FRAMED_BODIES = [b'', b'abc', b'abcde', b'3\r\nabc\r\n0\r\n\r\n', b'-5\r\nabc', b'-0\r\n\r\n', b'+3\r\nabc\r\n0\r\n\r\n',
                 b'0x3\r\nabc\r\n0\r\n\r\n', b' 3\r\nabc\r\n0\r\n\r\n', b'3;\r\nabc\r\n0\r\n\r\n', b'\r\n0\r\n\r\n',
                 b'ffffffffffffffffffffff\r\nabc', b'3\r\nabcXX0\r\n\r\n']
VALID = [
    b'GET http://h/ HTTP/1.1\r\nHost: h\r\n\r\n',
    b'POST http://h/p HTTP/1.1\r\nHost: h\r\nContent-Length: 3\r\n\r\nabc',
    b'CONNECT h:443 HTTP/1.1\r\nHost: h:443\r\n\r\n',
    b'GET /w/x HTTP/1.1\r\nHost: h\r\n\r\n',
]
ORIGIN_RESP = b'HTTP/1.1 200 OK\r\nContent-Length: 2\r\n\r\nok'


def inputs(tier):
    """(label, class, bytes) -- simplest first."""
    L = 3 if tier == 'quick' else 4
    out = []
    for n in range(1, L + 1):
        for seq in itertools.product(range(len(TOKENS)), repeat=n):
            out.append(('t:' + '.'.join(map(str, seq)), 'tokens', b''.join(TOKENS[i] for i in seq), seq))
    if tier == 'quick':
        # every 4-token sequence that has the shape of a request line + terminator
        for a in (0, 1, 2):
            for t in (4, 5, 6, 7, 16, 17):
                for v in (8, 9, 16):
                    seq = (a, 3, t, 3, v, 10, 10)
                    out.append(('t:' + '.'.join(map(str, seq)), 'tokens', b''.join(TOKENS[i] for i in seq), seq))
    # structured: request line + one header from the alphabet + blank line (+ body-ish token)
    for a in (0, 1, 2):
        for t in (4, 5, 7):
            for h in (11, 12, 13, 14, 15, 16, 17):
                for tail in ((), (18,), (16, 10), (17,)):
                    seq = (a, 3, t, 3, 8, 10, h, 10, 10) + tail
                    out.append(('t:' + '.'.join(map(str, seq)), 'tokens', b''.join(TOKENS[i] for i in seq), seq))
    # damaged / conflicting message framing: one or two framing headers (in both orders) x body shapes incl.
    # chunk-size lines that are not plain hex; whatever the proxy decides, it must decide (no endless loop)
    for ri, head in enumerate((b'POST http://h/p HTTP/1.1\r\nHost: h\r\n', b'POST /w/x HTTP/1.1\r\nHost: h\r\n')):
        for hi, hs in enumerate([(a,) for a in FRAMING] + list(itertools.product(FRAMING, repeat=2))):
            for bi, body in enumerate(FRAMED_BODIES):
                data = head + b''.join(h + CRLF for h in hs) + CRLF + body
                out.append(('framing:%d:%d:%d' % (ri, hi, bi), 'framing', data, None))
    # requests with every shape of Proxy-Authorization (exercised with and without --basic-auth u:p)
    for ri, line in enumerate((b'GET http://h/ HTTP/1.1\r\nHost: h\r\n', b'CONNECT h:443 HTTP/1.1\r\nHost: h:443\r\n',
                               b'POST http://h/p HTTP/1.1\r\nHost: h\r\nContent-Length: 3\r\n')):
        for ai, av in enumerate((None, b'Basic dTpw', b'Basic eDp5', b'basic dTpw', b'Bearer abc', b'Digest username="u"', b'Basic',
                                 b'', b'Basic dTpw extra', b'Basic  dTpw', b'Negotiate', b'Basic \xff\xfe')):
            data = line + (b'' if av is None else b'Proxy-Authorization: ' + av + CRLF) + CRLF + (b'abc' if ri == 2 else b'')
            out.append(('auth:%d:%d' % (ri, ai), 'auth', data, None))
    for i, v in enumerate(VALID):
        cuts = range(1, len(v)) if tier == 'thorough' else sorted(set([1, 3, 4, 10, len(v) // 2, len(v) - 3, len(v) - 1]))
        for k in cuts:
            out.append(('trunc:%d:%d' % (i, k), 'truncation', v[:k], None))
        for j, u in enumerate(VALID):
            out.append(('concat:%d:%d' % (i, j), 'concatenation', v + u, None))
            out.append(('trunc+valid:%d:%d' % (i, j), 'concatenation', v[:len(v) // 2] + u, None))
    return out


def pack(label, data, seq):
    yield 'whole', [data]
    if seq is not None and len(seq) > 1:
        yield 'per_token', [TOKENS[i] for i in seq]
    if 1 < len(data) <= 40:
        yield 'per_byte', [data[i:i + 1] for i in range(len(data))]


def configs():
    return [
        ('proxy', ['--threadless'], {}),
        ('proxy+web', ['--threadless', '--enable-web-server'], {'plugins': [plugins.web_stamp()]}),
        ('proxy+auth', ['--threadless', '--basic-auth', 'u:p'], {}),
    ]


class Lazy:
    """Indexable scenario collection built on demand (the thorough corpus has ~10^6 scenarios)."""

    def __init__(self, tier):
        self.ins = inputs(tier)
        self.cfg = configs()
        self.index = []
        for ci in range(len(self.cfg)):
            for ii, (label, cls, data, seq) in enumerate(self.ins):
                if self.cfg[ci][0] == 'proxy+auth' and cls not in ('auth', 'truncation', 'framing'):
                    continue        # the authenticating configuration: auth-shaped, truncated and damaged-framing inputs
                if self.cfg[ci][0] == 'proxy+auth' and cls == 'framing' and not label.startswith('framing:0:'):
                    continue
                for pname, _p in pack(label, data, seq):
                    self.index.append((ci, ii, pname))
        self.origins = {('10.0.0.1', 80): lambda: HttpOrigin([], respond=lambda c, k, r: [ORIGIN_RESP]),
                        ('10.0.0.1', 443): lambda: RawOrigin()}

    def __len__(self):
        return len(self.index)

    def __getitem__(self, k):
        ci, ii, pname = self.index[k]
        cname, fa, fo = self.cfg[ci]
        label, cls, data, seq = self.ins[ii]
        pieces = dict(pack(label, data, seq))[pname]
        script = [('send', p) for p in pieces] + [('wait_idle',)]
        return Scenario('%s/%s/%s' % (cname, label, pname), fa, flags_opts=fo, mode='local',
                        clients=[dict(script=script)], origins=self.origins, dns={'h': '10.0.0.1'},
                        kinds='', horizon=400,
                        features={'config': cname, 'class': cls, 'packing': pname, '_input': data})

    def by_name(self, name):
        for k in range(len(self.index)):
            ci, ii, pname = self.index[k]
            if '%s/%s/%s' % (self.cfg[ci][0], self.ins[ii][0], pname) == name:
                return self[k]
        return None


def scenarios(tier):
    return Lazy(tier)


def check(w):
    f = w.scn.features
    data = f['_input']
    if w.died or w.run_exc:
        return [{'symptom': 'executor_died', 'features': {}, 'detail': {'input': data, 'exc': w.run_exc}}]
    c = w.clients[0]
    rx = bytes(c.rx)
    contacted = len(w.connect_log) > 0 or len(w.dns_log) > 0
    out = []
    if not rx:
        if c.eof:
            return []                       # clean close
        if contacted:
            return []                       # being served (upstream asked, nothing to relay yet)
        reqs, err = oracles.parse_request(data)
        if any(r['complete'] for r in reqs) and err is None:
            out.append({'symptom': 'complete_request_ignored', 'features': {},
                        'detail': {'input': data, 'h11_requests': [(r['method'], r['target']) for r in reqs]}})
        return out
    # something was sent to the client: it must be a sequence of complete, valid responses
    methods = [b'CONNECT'] if data.startswith(b'CONNECT') else [b'GET']
    stream = rx
    n = 0
    proxy_error = False
    while stream:
        r = oracles.parse_response(stream, methods[0], eof=c.eof)
        if not r['ok']:
            if methods[0] == b'CONNECT' and r['status'] is not None and 200 <= r['status'] < 300:
                break                       # tunnel acknowledged: what follows is opaque tunnel data
            out.append({'symptom': 'malformed_or_partial_response', 'features': {'after_valid_responses': n},
                        'detail': {'input': data, 'rx': rx[:300], 'h11': r['error'], 'eof': c.eof}})
            return out
        n += 1
        if r['status'] >= 400:
            proxy_error = True              # origins in this world only ever answer 200
            if r['trailing']:
                # the rejection is the last thing the proxy may say on this connection
                out.append({'symptom': 'bytes_after_error_response', 'features': {},
                            'detail': {'input': data, 'rx': rx[:300], 'extra': r['trailing'][:120]}})
                return out
        if r['trailing'] == stream:
            break
        stream = r['trailing']
        if n > 8:
            break
    if proxy_error and not c.eof:
        out.append({'symptom': 'connection_open_after_error_response', 'features': {},
                    'detail': {'input': data, 'rx': rx[:200]}})
    if proxy_error:
        # after deciding to reject, the SUT must not read further client bytes
        first_err_turn = None
        for (turn, actor, op, d) in w.trace:
            if actor == c.name and op == 'sut_send' and first_err_turn is None:
                first_err_turn = turn
        later_reads = [t for (t, a, op, d) in w.trace
                       if a == c.name and op == 'sut_recv' and first_err_turn is not None and t > first_err_turn and d]
        if later_reads and not contacted:
            out.append({'symptom': 'reads_client_after_rejecting', 'features': {},
                        'detail': {'input': data, 'turns': later_reads[:4]}})
    return out


# ---------------------------------------------------------------- part 2: builders

def builder_cases():
    common.bind_repo()
    from proxy.http import responses as R
    from proxy.http.exception import HttpRequestRejected, ProxyAuthenticationFailed, ProxyConnectionFailed
    from proxy.common.utils import build_http_response, build_websocket_handshake_response
    from proxy.http.server import HttpWebServerBasePlugin
    from proxy.http.parser import HttpParser
    cases = []
    for name in sorted(dir(R)):
        v = getattr(R, name)
        if isinstance(v, memoryview):
            m = b'CONNECT' if 'TUNNEL' in name else b'GET'
            cases.append(('canned:' + name, m, bytes(v)))
    contents = [None, b''] + [bytes(range(65, 65 + n)) for n in range(1, 26)] + [b'x' * 1000, bytes(range(256)) * 2]
    hdrs = [None, {b'X-A': b'b'}, {b'Content-Type': b'text/plain'}]
    for ci, content in enumerate(contents):
        for hi, h in enumerate(hdrs):
            for compress in (True, False):
                for mcl in (0, 20):
                    for kw in ({}, {'conn_close': True}, {'conn_close': True, 'no_cl': True},
                               {'protocol_version': b'HTTP/1.0'}):
                        hh = None if h is None else dict(h)
                        try:
                            b = bytes(R.okResponse(content=content, headers=hh, compress=compress,
                                                   min_compression_length=mcl, **kw))
                        except Exception as e:  # noqa
                            b = ('EXC', repr(e))
                        cases.append(('okResponse:c%d:h%d:z%d:m%d:%s' % (ci, hi, compress, mcl, sorted(kw)), b'GET', b))
    for loc in (b'/', b'http://x/y?z=1', b''):
        cases.append(('permanentRedirect:%r' % loc, b'GET', bytes(R.permanentRedirectResponse(loc))))
        cases.append(('seeOthers:%r' % loc, b'GET', bytes(R.seeOthersResponse(loc))))
    req = HttpParser.request(b'GET / HTTP/1.1\r\nHost: x\r\n\r\n')
    for status in (200, 204, 304, 400, 403, 404, 418, 500, 599):
        for reason in (None, b'Nope', b"I'm a teapot"):
            for h in (None, {b'X-A': b'b'}, {b'Content-Length': b'3'}):
                for body in (None, b'', b'abc', bytes(range(256))):
                    if body and status in (204, 304):
                        continue    # HTTP forbids a body here: that argument combination is the caller's error
                    e = HttpRequestRejected(status_code=status, reason=reason,
                                            headers=None if h is None else dict(h), body=body)
                    r = e.response(req)
                    cases.append(('HttpRequestRejected:%s:%r:%r:%r' % (status, reason, h, None if body is None else len(body)),
                                  b'GET', bytes(r) if r is not None else None))
    cases.append(('ProxyAuthenticationFailed', b'GET', bytes(ProxyAuthenticationFailed().response(req))))
    cases.append(('ProxyConnectionFailed', b'GET', bytes(ProxyConnectionFailed('h', 80, 'x').response(req))))
    for acc in (b'', b's3pPLMBiTxaQ9kYGzzhZRbK+xOo=', b'\xff'):
        cases.append(('ws-handshake:%r' % acc, b'UPGRADE', build_websocket_handshake_response(acc)))
    import os
    d = os.path.join(netmc.scratch_dir(), 'static6')
    os.makedirs(d, exist_ok=True)
    for fn, data in (('a.txt', b'hello'), ('e.bin', b''), ('z.txt', b'z' * 500)):
        with open(os.path.join(d, fn), 'wb') as fh:
            fh.write(data)
        for mcl in (0, 20, 10 ** 9):
            cases.append(('static:%s:%d' % (fn, mcl), b'GET',
                          bytes(HttpWebServerBasePlugin.serve_static_file(os.path.join(d, fn), mcl))))
    cases.append(('static:missing', b'GET', bytes(HttpWebServerBasePlugin.serve_static_file(os.path.join(d, 'nope'), 20))))
    return cases


def check_builder(name, method, b):
    if b is None:
        return None
    if isinstance(b, tuple):
        return {'symptom': 'builder_raised', 'detail': b[1]}
    if method == b'UPGRADE':
        import h11
        c = h11.Connection(our_role=h11.CLIENT)
        c.send(h11.Request(method='GET', target='/', headers=[('host', 'x'), ('connection', 'upgrade'), ('upgrade', 'websocket')]))
        c.send(h11.EndOfMessage())
        c.receive_data(b)
        try:
            ev = c.next_event()
            ok = isinstance(ev, h11.InformationalResponse) and ev.status_code == 101
        except h11.RemoteProtocolError as e:
            return {'symptom': 'invalid_generated_response', 'detail': {'h11': str(e), 'bytes': b[:200]}}
        return None if ok else {'symptom': 'invalid_generated_response', 'detail': {'bytes': b[:200]}}
    r = oracles.parse_response(b, method, eof=True)
    if method == b'CONNECT' and r['status'] is not None and 200 <= r['status'] < 300 and not r['error']:
        return None
    if not r['ok']:
        return {'symptom': 'invalid_generated_response', 'detail': {'h11': r['error'], 'bytes': b[:200]}}
    if r['trailing']:
        return {'symptom': 'body_longer_than_framing', 'detail': {'trailing': r['trailing'][:80], 'bytes': b[:200]}}
    # length consistency: a Content-Length response must hold exactly that many bytes
    return None


def run(tier):
    scns = scenarios(tier)
    rc_rep = _run(tier, scns)
    return rc_rep


def _run(tier, scns):
    # part 2 first (cheap), its violations are injected through a wrapper around netcheck's report
    cases = builder_cases()
    bad = []
    for name, method, b in cases:
        v = check_builder(name, method, b)
        if v:
            bad.append((name, v))
    orig_finish = common.Report.finish

    def finish(rep):
        rep.add(builder_cases=len(cases), states=len(cases), transitions=len(cases))
        rep.sample({'builder_case': cases[len(cases) // 3][0]})
        for name, v in bad:
            kind = name.split(':')[0]
            rep.violation({'part': 'builders', 'builder': kind, 'symptom': v['symptom']},
                          {'case': name, 'detail': v['detail']})
        return orig_finish(rep)
    common.Report.finish = finish
    try:
        return netcheck.run(PROP, tier, scns, check, 0, None, det_every=97,
                            flagsets=[(fa, fo) for _n, fa, fo in configs()],
                            rule='part 1: every token sequence of <= L tokens (L=3 quick, 4 thorough) + structured '
                                 'request-shaped sequences + damaged / conflicting framing (1-2 framing headers x 13 body shapes) + truncations/concatenations of valid requests, each under '
                                 'packings {whole, per token, per byte} x {proxy, proxy+web, proxy with --basic-auth}, one execution of the real '
                                 'executor each; part 2: every generated response over the argument grid, h11 as judge')
    finally:
        common.Report.finish = orig_finish


def replay(path):
    import json
    body = json.load(open(path))
    if body['features'].get('part') == 'builders':
        cases = {n: (m, b) for n, m, b in builder_cases()}
        n = body['replay']['case']
        m, b = cases[n]
        print(n, b)
        print(check_builder(n, m, b))
        return 0
    lz = scenarios('thorough')
    name = body['replay']['scenario']
    scn = lz.by_name(name) or scenarios('quick').by_name(name)
    return netcheck.replay(path, [scn], check)
