"""C19 -- proxy listens where configured, reports its ports truthfully, shuts down cleanly (cfgmc:
every point of a finite option lattice is run live in its own process)."""
import itertools
from .. import common, cfgmc

PROP = 'C19'


def points(tier):
    out = []
    ports_shapes = [[], [0], ['A'], ['A', 0], ['A', 'B', 'C']]
    for mode, workers in itertools.product(('threaded', 'local', 'remote'), (1, 2)):
        for hostname, hostnames in (('127.0.0.1', []), ('::1', []), ('127.0.0.1', ['::1']), ('::1', ['127.0.0.1'])):
            for port in (0, 'P'):
                for ports in ports_shapes:
                    # OS-assigned ports only together with a single listening address
                    if hostnames and (port == 0 or 0 in ports):
                        continue
                    for unix in (False, True):
                        for files in (False, True):
                            seeds = (0, 1, 2, 3) if hostnames else (0,)
                            for hs in seeds:
                                out.append({'mode': mode, 'workers': workers, 'hostname': hostname, 'hostnames': hostnames,
                                            'port': port, 'ports': ports, 'unix': unix, 'files': files, 'hashseed': hs})
    # --ports naming the DEFAULT value of --port while --port itself is unused (unix socket) or different
    extra = []
    for mode in ('threaded', 'local', 'remote'):
        for unix, port in ((True, None), (True, 0), (True, 'P'), (False, 'P')):        # None: --port not given at all
            for ports in (['D'], ['D', 'A'], ['A', 'D']):
                for files in (False, True):
                    extra.append({'mode': mode, 'workers': 1, 'hostname': '127.0.0.1', 'hostnames': [], 'port': port, 'ports': ports,
                                  'unix': unix, 'files': files, 'hashseed': 0})
    # a wildcard address of one family together with a specific address of the other
    for mode in ('threaded', 'local', 'remote'):
        for hostname, hostnames in (('0.0.0.0', ['::1']), ('::1', ['0.0.0.0'])):      # (a v6 wildcard would also claim the v4 port)
            for ports in ([], ['A']):
                for hs in (0, 1):
                    extra.append({'mode': mode, 'workers': 1, 'hostname': hostname, 'hostnames': hostnames, 'port': 'P', 'ports': ports,
                                  'unix': False, 'files': True, 'hashseed': hs, 'wildcard': True})
    # more acceptors than workers and the other way round (six clients one after the other on the one endpoint)
    more = []
    for mode in ('threaded', 'local', 'remote'):
        for acc, wrk in ((2, 1), (1, 2), (3, 2)):
            more.append({'mode': mode, 'workers': wrk, 'acceptors': acc, 'probes': 6, 'hostname': '127.0.0.1', 'hostnames': [],
                         'port': 0, 'ports': [], 'unix': False, 'files': True, 'hashseed': 0})
    if tier == 'quick':
        extra = [p for i, p in enumerate(extra) if p.get('wildcard') and (p['hashseed'] == 0 and (bool(p['ports']) == (p['mode'] != 'local'))) or not p.get('wildcard') and p['files'] and (i // 2) % 3 == ['threaded', 'local', 'remote'].index(p['mode'])]
    if tier == 'quick':
        # every option value, every --ports shape and every mode, pairwise rather than the full product
        sel = []
        for i, p in enumerate(out):
            k = (i * 7) % 11
            if p['workers'] == 2 and p['mode'] != 'remote':
                continue
            if (p['files'] and not p['unix'] and k < 5) or (p['unix'] and p['files'] and k < 2) or \
                    (not p['files'] and not p['unix'] and k == 0):
                if p['hashseed'] in (0, 1):
                    sel.append(p)
        out = sel
    return out + extra + more


def judge(pt, r):
    """Returns list of (symptom, detail)."""
    v = []
    if 'harness_error' in r:
        return [('harness_error', r)]
    if r.get('skipped'):
        return []
    if 'exception' in r:
        return [('start_or_shutdown_raised', {'exception': r['exception'], 'traceback': r.get('traceback')})]
    bound_ports = sorted(set(p for _h, p in r['bound']))
    hosts = [pt['hostname']] + pt['hostnames']
    # every configured endpoint answers
    for k, pr in r['probes_up'].items():
        if pr[0] != 'answered':
            v.append(('endpoint_does_not_answer_after_startup', {'endpoint': k, 'probe': pr}))
    n_expected = 0 if False else len(hosts) * (len(pt['ports']) + (0 if pt['unix'] else 1))
    if len(r['bound']) != n_expected:
        v.append(('number_of_tcp_endpoints_differs_from_configuration', {'bound': r['bound'], 'expected': n_expected}))
    for want in [p for p in r['requested_ports'] if p] + ([r['requested_primary']] if r['requested_primary'] and not pt['unix'] else []):
        for h in hosts:
            if [h, want] not in [list(b) for b in r['bound']]:
                v.append(('configured_endpoint_not_bound', {'host': h, 'port': want, 'bound': r['bound']}))
    if not pt['unix']:
        # the primary port reported by the embedding API is the port of the --port listener
        primary_candidates = set(bound_ports) - set(p for p in r['requested_ports'] if p)
        if r['requested_primary']:
            if r['flags_port'] != r['requested_primary']:
                v.append(('reported_primary_port_is_not_the_configured_primary',
                          {'flags_port': r['flags_port'], 'configured': r['requested_primary'], 'bound': bound_ports}))
        elif r['flags_port'] not in bound_ports:
            v.append(('reported_primary_port_not_bound', {'flags_port': r['flags_port'], 'bound': bound_ports}))
        elif 0 not in pt['ports'] and r['flags_port'] not in primary_candidates:
            v.append(('reported_primary_port_is_an_additional_port', {'flags_port': r['flags_port'], 'bound': bound_ports}))
        reported = sorted(set([r['flags_port']] + r['flags_ports']))
        if reported != bound_ports:
            v.append(('reported_ports_are_not_exactly_the_bound_ports', {'flags_port': r['flags_port'],
                                                                        'flags_ports': r['flags_ports'], 'bound': bound_ports}))
    else:
        if sorted(r['flags_ports']) != bound_ports:
            v.append(('reported_ports_are_not_exactly_the_bound_ports', {'flags_ports': r['flags_ports'], 'bound': bound_ports}))
    if pt['files']:
        pf = [int(x) for x in r['port_file']]
        if sorted(pf) != bound_ports or len(pf) != len(set(pf)):
            v.append(('port_file_does_not_name_exactly_the_bound_ports', {'port_file': pf, 'bound': bound_ports}))
        elif not pt['unix'] and pf and pf[0] != r['flags_port']:
            v.append(('port_file_first_line_is_not_the_primary_port', {'port_file': pf, 'flags_port': r['flags_port']}))
        elif not pt['unix'] and r['requested_primary'] and pf[0] != r['requested_primary']:
            v.append(('port_file_first_line_is_not_the_primary_port', {'port_file': pf, 'configured': r['requested_primary']}))
        if r['pid_file'] != r['pid']:
            v.append(('pid_file_wrong', {'pid_file': r['pid_file'], 'pid': r['pid']}))
    # after shutdown
    for k, pr in r['probes_down'].items():
        if pr[0] != 'refused':
            v.append(('endpoint_still_accepts_after_shutdown', {'endpoint': k, 'probe': pr}))
    if r['children_left']:
        v.append(('child_process_left_after_shutdown', {'n': r['children_left']}))
    if pt['files'] and r.get('files_left'):
        v.append(('pid_or_port_file_left_after_shutdown', {'files': r['files_left']}))
    if pt['unix'] and r.get('unix_socket_file_left'):
        v.append(('unix_socket_file_left_after_shutdown', {}))
    return v


def run(tier):
    rep = common.Report(PROP, tier)
    pts = points(tier)
    n = 0
    herr = 0
    seen = set()
    cstats = {}
    for pt, r, verdicts in cfgmc.run_judged('mc.c19point', pts, judge, timeout=300, stats=cstats):
        n += 1
        if n % 29 == 1:
            rep.sample({'point': pt, 'bound': r.get('bound'), 'flags_port': r.get('flags_port'), 'flags_ports': r.get('flags_ports'),
                        'port_file': r.get('port_file')})
        for sym, detail in verdicts:
            if sym == 'harness_error':
                herr += 1
            shape = ','.join('0' if x == 0 else ('default' if x == 'D' else 'fixed') for x in pt['ports']) or 'none'
            feats = {'symptom': sym, 'mode': pt['mode'], 'ports_shape': shape, 'port': 'absent' if pt['port'] is None else ('os' if pt['port'] == 0 else 'fixed'),
                     'multi_address': bool(pt['hostnames']), 'unix': pt['unix']}
            k = tuple(sorted(feats.items()))
            if k in seen:
                continue
            seen.add(k)
            rep.violation(feats, {'point': pt, 'detail': detail, 'result': {x: r.get(x) for x in ('bound', 'flags_port', 'flags_ports', 'port_file')}})
    rep.add(points_rerun_for_confirmation=cstats.get('points_rerun_for_confirmation', 0),
            points_not_reproduced=cstats.get('points_not_reproduced', 0))
    rep.add(states=n, transitions=2 * n, traces_validated_against_impl=n, live_runs=n, harness_errors=herr,
            rule='option lattice: mode {threaded, local, remote} x workers {1,2} x hostname/hostnames {v4, v6, v4+v6, v6+v4} x --port '
                 '{0, fixed} x --ports {none, [0], [fixed], [fixed,0], [fixed x3]} x unix socket x pid/port files x hash seeds (so that '
                 'both iteration orders of the address set occur); every point started live in its own process, probed on every '
                 'endpoint, shut down and probed again (quick: a covering subset; thorough: the full product)')
    if tier == 'quick':
        rep.coverage['exhaustive'] = False
        rep.coverage['note'] = 'quick tier runs a covering subset of the lattice; thorough runs all of it'
    return rep.finish()


def replay(path):
    import json
    body = json.load(open(path))
    pt = body['replay']['point']
    for p, r in cfgmc.run_points('mc.c19point', [pt], jobs=1):
        print(json.dumps(r, indent=1)[:3000])
        print(judge(p, r))
    return 0
