"""C02 -- the forwarded HTTP request is semantically identical to the client's (netmc end-to-end,
h11 at the origin as the independent reader)."""
import itertools
from .. import netmc, netcheck, httpgen
from ..netmc import Scenario, HttpOrigin

PROP = 'C02'
OK = b'HTTP/1.1 200 OK\r\nContent-Length: 2\r\n\r\nok'
FIRST = b'GET http://h.test/first HTTP/1.1\r\nHost: h.test\r\n\r\n'

METHODS = [b'GET', b'POST', b'PUT', b'DELETE', b'OPTIONS', b'PATCH']
TARGETS = [(b'http://h.test/', b'/'), (b'http://h.test/a/b?x=1&y=2', b'/a/b?x=1&y=2'),
           (b'http://h.test:8080/p', b'/p'), (b'http://h.test', b'/'), (b'http://h.test/%7Euser/a%20b', b'/%7Euser/a%20b')]
HDRS = [
    (b'Host', b'h.test', b'Host: h.test'),
    (b'x-lower', b'v1', b'x-lower: v1'),
    (b'X-MiXed-Case', b'a b', b'X-MiXed-Case:   a b  '),
    (b'X-Empty', b'', b'X-Empty:'),
    (b'X-Colon', b'a:b', b'X-Colon: a:b'),
    (b'Accept', b'*/*', b'Accept:*/*'),
    (b'Proxy-Connection', b'keep-alive', b'Proxy-Connection: keep-alive'),
    (b'Proxy-Authorization', b'Basic dTpw', b'Proxy-Authorization: Basic dTpw'),
    (b'Connection', b'keep-alive', b'Connection: keep-alive'),
    (b'User-Agent', b'ua/1.0', b'User-Agent: ua/1.0'),
    (b'Cookie', b'a=1; b=2', b'Cookie: a=1; b=2'),
    (b'X-Tab', b'v\tw', b'X-Tab:\tv\tw\t'),                       # 11: tabs as optional whitespace and inside the value
    (b'X-Spaces', b'a  b   c', b'X-Spaces: a  b   c'),             # 12: internal runs of spaces are part of the value
    (b'X-Long', b'L' * 3000, b'X-Long: ' + b'L' * 3000),           # 13: longer than a small receive buffer
    (b'X-A', b'1', b'X-A: 1'), (b'X-AB', b'2', b'X-AB: 2'),        # 14, 15: one name is a prefix of the other
    (b'X-Look', b'Content-Length: 5', b'X-Look: Content-Length: 5'),  # 16: framing look-alike inside a value
    (b'Connection', b'Upgrade', b'Connection: Upgrade'), (b'Upgrade', b'websocket', b'Upgrade: websocket'),  # 17, 18: handshake
    (b'Proxy-Trace-Id', b'abc123', b'Proxy-Trace-Id: abc123'), (b'proxy-segment', b'eu', b'proxy-segment: eu'),  # 19, 20: end-to-end
    (b'X-Proxy-Authorization', b'keep', b'X-Proxy-Authorization: keep'),                                        # 21: look-alike
    (b'X-Rep', b'1', b'X-Rep: 1'), (b'X-Rep', b'2', b'X-Rep: 2'),                                               # 22, 23: a field sent twice
    (b'Accept-Language', b'de', b'Accept-Language: de'), (b'accept-language', b'en', b'accept-language: en'),   # 24, 25: twice, two spellings
]
BODIES = [b'', b'a', b'abc', b'\x00\xff\r\n', b'0\r\n\r\n', b'x' * 70]


def corpus(tier):
    """Yields (name, httpgen.Msg)."""
    out = []
    thorough = tier == 'thorough'
    hsets = [[HDRS[0]], [HDRS[0], HDRS[2]], [HDRS[0], HDRS[1], HDRS[3]], [HDRS[0], HDRS[6], HDRS[7]],
             [HDRS[0], HDRS[4], HDRS[5]], [HDRS[0], HDRS[8], HDRS[9], HDRS[10]],
             [HDRS[0], HDRS[1], HDRS[7], HDRS[6]],
             [HDRS[0], HDRS[11], HDRS[12], HDRS[16]], [HDRS[0], HDRS[14], HDRS[15], HDRS[13]],
             [HDRS[0], HDRS[7], HDRS[17], HDRS[18]], [HDRS[0], HDRS[19], HDRS[20], HDRS[21], HDRS[7], HDRS[6]],
             [HDRS[0], HDRS[22], HDRS[1], HDRS[23]], [HDRS[0], HDRS[24], HDRS[25]]]
    if thorough:
        hsets += [[HDRS[0]] + list(c) for c in itertools.combinations(HDRS[1:], 2)][::6]
    for mi, m in enumerate(METHODS):
        for ti, (t, _o) in enumerate(TARGETS):
            for hi, hs in enumerate(hsets):
                if not thorough and (mi + ti + hi) % 3 and not (mi == 1 and ti == 0):
                    continue
                ver = b'HTTP/1.1' if (mi + ti + hi) % 5 else b'HTTP/1.0'
                start = (m, t, ver)
                out.append(('%s.t%d.h%d.none' % (m.decode(), ti, hi), httpgen.build('request', start, hs, 'none')))
                if m in (b'GET', b'DELETE', b'OPTIONS') and not thorough:
                    # a body on these methods is unusual, not ill-formed (search-style GETs): one of each framing
                    if hi == 0:
                        out.append(('%s.t%d.h%d.cl.b-abc' % (m.decode(), ti, hi), httpgen.build('request', start, hs, 'cl', b'abc')))
                        out.append(('%s.t%d.h%d.ch.b-abc' % (m.decode(), ti, hi),
                                    httpgen.build('request', start, hs, 'chunked', b'abc', (1, 2))))
                    continue
                for bi, body in enumerate(BODIES):
                    if not thorough and (bi + hi) % 2 and body not in (b'', b'abc'):
                        continue
                    out.append(('%s.t%d.h%d.cl.b%d' % (m.decode(), ti, hi, bi),
                                httpgen.build('request', start, hs, 'cl', body)))
                    lays = list(httpgen.compositions(len(body))) if len(body) <= 3 else [(len(body),), (1, len(body) - 1)]
                    for li, lay in enumerate(lays):
                        out.append(('%s.t%d.h%d.ch.b%d.l%d' % (m.decode(), ti, hi, bi, li),
                                    httpgen.build('request', start, hs, 'chunked', body, lay)))
                    if body and (thorough or hi == 0):
                        out.append(('%s.t%d.h%d.chx.b%d' % (m.decode(), ti, hi, bi),
                                    httpgen.build('request', start, hs, 'chunked', body, (len(body),),
                                                  hexcase='upper', lead_zero=True, ext=b';e=1')))
    # framing header names and the transfer-coding name in other casings (both are case-insensitive)
    for fcase, tev in (('canonical', b'Chunked'), ('canonical', b'CHUNKED'), ('lower', b'chunked'), ('upper', b'CHUNKED'),
                       ('mixed', b'cHUNKED'), ('lower', b'Chunked')):
        for bi, body in enumerate((b'', b'abc', b'x' * 70)):
            for hi, hs in enumerate(([HDRS[0]], [HDRS[0], HDRS[1], HDRS[3]])):
                start = (b'POST', b'http://h.test/case', b'HTTP/1.1')
                out.append(('POST.case-%s-%s.h%d.ch.b%d' % (fcase, tev.decode(), hi, bi),
                            httpgen.build('request', start, hs, 'chunked', body, (1, len(body) - 1) if body else (),
                                          framing_case=fcase, te_value=tev)))
                if tev.lower() == tev or fcase != 'canonical':
                    out.append(('POST.case-%s.h%d.cl.b%d' % (fcase, hi, bi),
                                httpgen.build('request', start, hs, 'cl', body, framing_case=fcase)))
    seen = set()
    out = [x for x in out if not (x[0] in seen or seen.add(x[0]))]
    # lower-case framing header names as sent by some clients
    for body in (b'abc',):
        hs = [HDRS[0]]
        m = httpgen.build('request', (b'POST', b'http://h.test/lc', b'HTTP/1.1'), hs, 'none')
        raw = m.raw[:-2] + b'content-length: 3\r\n\r\n' + body
        mm = httpgen.Msg(kind='request', method=b'POST', target=b'http://h.test/lc', version=b'HTTP/1.1',
                         headers=[(b'Host', b'h.test'), (b'content-length', b'3')], framing='cl', body=body,
                         raw=raw, end=len(raw), trailing=b'', features={'framing': 'cl', 'lowercase_cl': True})
        out.append(('POST.lowercase-cl', mm))
    return out


def packings(raw, tier):
    out = [('whole', [raw])]
    n = len(raw)
    cuts = range(1, n) if tier == 'thorough' else sorted(set(
        [1, raw.index(b'\r\n') + 1, raw.index(b'\r\n\r\n') + 2, raw.index(b'\r\n\r\n') + 4, n - 1, n // 2]) & set(range(1, n)))
    for c in cuts:
        out.append(('cut%d' % c, [raw[:c], raw[c:]]))
    if n <= 120 or tier == 'thorough':
        out.append(('per_byte', [raw[i:i + 1] for i in range(n)]))
    return out


def scenarios(tier):
    out = []
    for name, m in corpus(tier):
        for dis in ('', 'x-lower'):
            if dis and not any(h[0] == b'x-lower' for h in m.headers):
                continue
            fa = ['--threadless'] + (['--disable-headers', dis] if dis else [])
            keepalive_ok = m.version == b'HTTP/1.1' and not any(h[0].lower() in (b'connection', b'upgrade') for h in m.headers)
            for pos in ('first', 'second') + (('followed',) if keepalive_ok else ()):
                # every single cut only for short messages; token-boundary cuts otherwise
                pks = packings(m.raw, tier if (len(m.raw) <= 110 and pos == 'first') else 'quick')
                if pos == 'second' and tier == 'quick' and (m.framing != 'cl' or len(m.raw) > 160):
                    pks = pks[:2]
                if pos == 'followed':
                    # the next request of the connection starts in the very segment that ends this one
                    auth = m.target.split(b'://', 1)[1].split(b'/', 1)[0]
                    nxt = b'GET http://%s/next HTTP/1.1\r\nHost: %s\r\n\r\n' % (auth, auth)
                    raw = m.raw
                    hl = raw.index(b'\r\n\r\n') + 4
                    cuts = sorted(set(c for c in (hl - 2, hl, hl + max(1, (len(raw) - hl) // 2), len(raw) - 1, len(raw) // 2)
                                      if 0 < c < len(raw)))
                    if tier == 'thorough' and len(raw) <= 110:
                        cuts = list(range(1, len(raw)))
                    pks = [('whole', [raw + nxt])] + [('cut%d' % c, [raw[:c], raw[c:] + nxt]) for c in cuts]
                    if len(raw) - hl >= 3:
                        a, b = hl + 1, len(raw) - 1
                        pks.append(('cut%d+%d' % (a, b), [raw[:a], raw[a:b], raw[b:] + nxt]))
                for pname, pieces in pks:
                    script = []
                    if pos == 'second':
                        auth = m.target.split(b'://', 1)[1].split(b'/', 1)[0]
                        first = b'GET http://%s/first HTTP/1.1\r\nHost: %s\r\n\r\n' % (auth, auth)
                        script += [('send', first), ('wait_recv', len(OK))]
                    script += [('send', p) for p in pieces] + [('wait_idle',), ('close',)]
                    port = 8080 if b':8080' in m.target else 80
                    out.append(Scenario(
                        '%s/%s/%s/%s' % (name, 'dis' if dis else 'nodis', pos, pname), fa, mode='local',
                        clients=[dict(script=script)],
                        origins={('10.0.0.1', port): lambda: HttpOrigin([], respond=lambda c, k, r: [OK])},
                        dns={'h.test': '10.0.0.1'}, kinds='', horizon=1500,
                        features={'position': pos, 'framing': m.framing, 'method': m.method,
                                  'empty_body': not m.body, 'disabled': bool(dis),
                                  'packing': 'cut' if pname.startswith('cut') else pname,
                                  'chunk_ext': bool(m.features.get('chunk_ext')),
                                  'lowercase_cl': bool(m.features.get('lowercase_cl')),
                                  'has_proxy_headers': any(h[0].lower().startswith(b'proxy-') for h in m.headers),
                                  'repeated_header_field': len(set(h[0].lower() for h in m.headers)) < len(m.headers),
                                  '_msg': m, '_dis': dis}))
    return out


def origin_form(target):
    rest = target.split(b'://', 1)[1]
    i = rest.find(b'/')
    return b'/' if i < 0 else rest[i:]


def check(w):
    f = w.scn.features
    m = f['_msg']
    if w.died or w.run_exc:
        return [{'symptom': 'executor_died', 'features': {}, 'detail': w.run_exc}]
    idx = 1 if f['position'] == 'second' else 0
    reqs = []
    herr = None
    for o in w.origin_conns:
        reqs += getattr(o, 'requests', [])
        herr = herr or getattr(o, 'h11_error', None)
    detail = {'origin_rx': bytes(w.origin_conns[0].rx)[-400:] if w.origin_conns else None, 'sent': m.raw[:400]}
    if herr:
        return [{'symptom': 'origin_cannot_parse_forwarded_request', 'features': {}, 'detail': dict(detail, h11=herr)}]
    if len(reqs) <= idx:
        return [{'symptom': 'request_not_forwarded', 'features': {}, 'detail': detail}]
    r = reqs[idx]
    out = []
    if f['position'] == 'followed':
        if len(reqs) < 2 or not reqs[1]['complete'] or reqs[1]['target'] != b'/next' or reqs[1]['method'] != b'GET':
            out.append({'symptom': 'request_following_in_the_same_segment_not_forwarded_intact', 'features': {},
                        'detail': dict(detail, got=[(q['method'], q['target'], q['complete']) for q in reqs[1:]])})
    if not r['complete']:
        out.append({'symptom': 'forwarded_request_incomplete', 'features': {}, 'detail': detail})
        return out
    if r['method'] != m.method:
        out.append({'symptom': 'method_changed', 'features': {}, 'detail': dict(detail, got=r['method'])})
    if r['target'] != origin_form(m.target):
        out.append({'symptom': 'target_not_origin_form_of_same_target', 'features': {},
                    'detail': dict(detail, got=r['target'], want=origin_form(m.target))})
    if b'HTTP/' + r['version'] != m.version:
        out.append({'symptom': 'version_changed', 'features': {}, 'detail': dict(detail, got=r['version'])})
    removed = {b'proxy-authorization', b'proxy-connection'}
    if f['_dis']:
        removed.add(f['_dis'].encode())
    framing_names = {b'content-length', b'transfer-encoding'}
    want = sorted((n, v) for n, v in m.headers if n.lower() not in removed and n.lower() not in framing_names)
    got = sorted((n, v.strip()) for n, v in r['headers'] if n.lower() != b'via' and n.lower() not in framing_names)
    if got != want:
        out.append({'symptom': 'header_fields_changed', 'features': {}, 'detail': dict(detail, got=got, want=want)})
    if not any(n.lower() == b'via' and b'proxy.py' in v for n, v in r['headers']):
        out.append({'symptom': 'via_missing', 'features': {}, 'detail': detail})
    for n, v in r['headers']:
        if n.lower() in removed:
            out.append({'symptom': 'hop_by_hop_or_disabled_header_forwarded', 'features': {'header': n.lower()},
                        'detail': detail})
    # framing headers are header fields too: what the client declared must still be declared
    got_cl = [v for n, v in r['headers'] if n.lower() == b'content-length']
    got_te = [v.lower() for n, v in r['headers'] if n.lower() == b'transfer-encoding']
    if m.framing == 'cl' and got_cl != [str(len(m.body)).encode()]:
        out.append({'symptom': 'content_length_field_not_preserved', 'features': {},
                    'detail': dict(detail, got=got_cl, want=len(m.body))})
    if m.framing == 'chunked' and got_cl:
        out.append({'symptom': 'content_length_added_to_chunked_request', 'features': {}, 'detail': dict(detail, got=got_cl)})
    if m.framing == 'chunked' and got_te != [b'chunked']:
        out.append({'symptom': 'transfer_encoding_field_not_preserved', 'features': {}, 'detail': dict(detail, got=got_te)})
    # framing headers: at most one of each, and consistent (h11 already validated consistency)
    for fn in framing_names:
        if sum(1 for n, _v in r['headers'] if n.lower() == fn) > 1:
            out.append({'symptom': 'duplicate_framing_header', 'features': {'header': fn}, 'detail': detail})
    if r['body'] != m.body:
        out.append({'symptom': 'body_changed', 'features': {}, 'detail': dict(detail, got=r['body'][:80], want=m.body[:80])})
    return out


def run(tier):
    scns = scenarios(tier)
    return netcheck.run(PROP, tier, scns, check, 0, None, det_every=53,
                        rule='every request of the structured corpus x {first, second on its connection} x '
                             '{no, one operator-disabled header} x packings {whole, single cuts (token boundaries quick / '
                             'every position thorough), per byte}; one execution of the real executor each; h11 at the origin')


def replay(path):
    return netcheck.replay(path, scenarios('thorough'), check)
