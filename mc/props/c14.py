"""C14 -- the proxy connects to exactly the host and port the request-target names.

Part A (seqmc-style, direct): every target of a bounded URI grammar through the real
HttpParser/Url; host, port, path compared with urllib.parse.urlsplit.
Part B (netmc): the same targets through the real forward proxy; the OS-level connect /
name-resolution log and the origin's request line are compared with the same reader."""
import itertools
from urllib.parse import urlsplit
from .. import common, netmc, netcheck, oracles
from ..netmc import Scenario, HttpOrigin, RawOrigin

PROP = 'C14'
HOSTS = [
    ('h', 'name', '10.9.0.1'), ('a-b.example', 'name', '10.9.0.2'), ('xn--bcher-kva.example', 'name', '10.9.0.3'),
    ('b\u00fccher.example', 'name', '10.9.0.4'), ('UPPER.Example', 'name', '10.9.0.5'),
    ('10.0.0.1', 'v4', None), ('127.0.0.1', 'v4', None),
    ('[::1]', 'v6', None), ('[2001:db8::1]', 'v6', None), ('[::ffff:1.2.3.4]', 'v6', None),
    ('[2001:DB8:0:0:0:0:0:1]', 'v6', None),
    # percent-encoded delimiters are part of the name, not delimiters (RFC 3986 2.2: "h%3A8081" is a reg-name,
    # it does not name port 8081 of "h"; "u%40h" has no userinfo)
    ('h%3A8081', 'name', '10.9.0.6'), ('u%40h', 'name', '10.9.0.7'),
]
PORTS = [None, 1, 80, 443, 8080, 65535]
USERINFO = ['', 'u:p@', 'u@', 'u:@', 'u%40x:p%3Aq@']
PATHS = ['', '/', '/a?b=c', '/a:b@c', '//x', '/a%20b/;p?q#f'.split('#')[0], '?q=1']     # '?q=1': empty path, query only
OK = b'HTTP/1.1 200 OK\r\nContent-Length: 2\r\n\r\nok'


def targets(tier):
    """(label, form, target str, expectation dict | None for damaged, strictness)"""
    out = []
    for (h, kind, ip), port, ui, path in itertools.product(HOSTS, PORTS, USERINFO, PATHS):
        if tier == 'quick':
            nd = (port not in (None, 8080)) + (ui not in ('', 'u:p@')) + (path not in ('/', '/a?b=c'))
            if nd > 1:
                continue
        auth = ui + h + (':%d' % port if port is not None else '')
        t = 'http://' + auth + path
        out.append(('abs', t, h, kind, ip, port, path, ui))
    # the scheme is case-insensitive
    for sch in ('HTTP://', 'Http://'):
        for (h, kind, ip) in (HOSTS[0], HOSTS[5], HOSTS[7]):
            for port in (None, 8080):
                for path in ('/', '/a?b=c', ''):
                    t = sch + h + (':%d' % port if port is not None else '') + path
                    out.append(('abs', t, h, kind, ip, port, path, ''))
    for (h, kind, ip), port in itertools.product(HOSTS, PORTS):
        t = h + (':%d' % port if port is not None else '')
        if port is None:
            continue        # authority-form requires a port (RFC 7230 5.3.3)
        out.append(('auth', t, h, kind, ip, port, '', ''))
    return out


DAMAGED = [
    ('empty-port', 'GET', 'http://h:/', 'either'),
    ('nonnumeric-port', 'GET', 'http://h:http/', 'reject'),
    ('port-too-big', 'GET', 'http://h:65536/', 'reject'),
    ('port-zero', 'GET', 'http://h:0/', 'reject'),
    ('connect-port-zero', 'CONNECT', 'h:0', 'reject'),
    ('connect-port-zero-v4', 'CONNECT', '10.0.0.1:0', 'reject'),
    ('port-zero-v6', 'GET', 'http://[::1]:0/x', 'reject'),
    ('negative-port', 'GET', 'http://h:-1/', 'reject'),
    ('unbalanced-bracket', 'GET', 'http://[::1/', 'reject'),
    ('unbalanced-bracket-2', 'GET', 'http://::1]/', 'reject'),
    ('bare-v6', 'GET', 'http://::1/', 'either'),
    ('two-at', 'GET', 'http://a@b@h/', 'either'),
    ('empty-host', 'GET', 'http:///path', 'reject'),
    ('empty-host-port', 'GET', 'http://:80/', 'reject'),
    ('connect-no-port', 'CONNECT', 'h', 'either'),
    ('connect-nonnumeric', 'CONNECT', 'h:https', 'reject'),
    ('connect-empty-port', 'CONNECT', 'h:', 'either'),
    ('connect-v6-unbracketed', 'CONNECT', '::1:443', 'either'),
    ('connect-path', 'CONNECT', 'h:443/x', 'either'),
    ('space-in-host', 'GET', 'http://h h/', 'reject'),
    ('port-underscore', 'GET', 'http://h:8_0/', 'reject'), ('port-plus', 'GET', 'http://h:+80/', 'reject'),
    ('port-space', 'GET', 'http://h: 80/', 'reject'), ('connect-port-plus', 'CONNECT', 'h:+443', 'reject'),
    ('connect-port-underscore', 'CONNECT', 'h:4_43', 'reject'),
    # host bytes that are not text: dropping or replacing them would name ANOTHER, valid host
    ('nonutf8-host', 'GET', b'http://exam\xffple.test/x', 'reject'),
    ('nonutf8-host-port', 'GET', b'http://exam\xffple.test:8080/x', 'reject'),
    ('connect-nonutf8-host', 'CONNECT', b'exam\xffple.test:443', 'reject'),
    ('nonutf8-host-tail', 'GET', b'http://example.test\xfe/x', 'reject'),
    ('truncated-utf8-host', 'GET', b'http://example\xc3.test/x', 'reject'),
    ('nul-in-host', 'GET', b'http://exam\x00ple.test/x', 'reject'),
]


def reference(form, t):
    """Independent reading of the target."""
    s = urlsplit(t if form == 'abs' else '//' + t)
    host = s.hostname            # lower-cased, brackets removed
    port = s.port
    path = s.path + ('?' + s.query if s.query else '')
    return host, port, path


def mkreq(form, t, hosthdr=b'x'):
    tb = t.encode('utf-8')
    if form == 'abs':
        return b'GET ' + tb + b' HTTP/1.1\r\nHost: ' + hosthdr + b'\r\n\r\n'
    return b'CONNECT ' + tb + b' HTTP/1.1\r\nHost: ' + hosthdr + b'\r\n\r\n'


# ---------------------------------------------------------------- part A

def part_a(tier, rep):
    common.bind_repo()
    from proxy.http.parser import HttpParser
    n = 0
    for (form, t, h, kind, ip, port, path, ui) in targets('thorough'):
        n += 1
        raw = mkreq(form, t)
        host_ref, port_ref, path_ref = reference(form, t)
        feats = {'part': 'parse', 'form': form, 'host_kind': kind, 'userinfo': ui or 'none',
                 'port': 'explicit' if port is not None else 'default'}
        try:
            p = HttpParser.request(raw)
        except Exception as e:   # noqa
            rep.violation(dict(feats, symptom='valid_target_rejected_by_parser'),
                          {'target': t, 'exc': '%s: %s' % (type(e).__name__, e)})
            continue
        got_host = (p.host or b'').decode('utf-8', 'replace')
        if got_host.strip('[]').lower() != (host_ref or '').lower():
            rep.violation(dict(feats, symptom='derived_host_disagrees_with_reference'),
                          {'target': t, 'got': got_host, 'want': host_ref})
        want_port = port_ref if port_ref is not None else (443 if form == 'auth' else 80)
        if p.port != want_port:
            rep.violation(dict(feats, symptom='derived_port_disagrees_with_reference'),
                          {'target': t, 'got': p.port, 'want': want_port})
        if form == 'abs':
            got_path = (p.path or b'').decode('utf-8', 'replace')
            if got_path != path_ref and not (path_ref.startswith('?') and got_path == '/' + path_ref):
                rep.violation(dict(feats, symptom='derived_path_disagrees_with_reference'),
                              {'target': t, 'got': got_path, 'want': path_ref})
    # origin-form targets
    for path in ['/', '/a?b=c', '/a:b@c', '/a%20b', '/http://x/', '/?', '/a//b', '/@', '/:80']:
        n += 1
        p = HttpParser.request(b'GET ' + path.encode() + b' HTTP/1.1\r\nHost: x\r\n\r\n')
        if p.host is not None or (p.path or b'').decode() != path:
            rep.violation({'part': 'parse', 'form': 'origin', 'symptom': 'origin_form_misread'},
                          {'target': path, 'host': p.host, 'path': p.path})
    rep.add(states=n, transitions=n, parse_cases=n)
    rep.sample({'parse_case': 'http://u:p@[2001:db8::1]:8080/a?b=c'})


# ---------------------------------------------------------------- part B

def scenarios(tier):
    out = []
    for (form, t, h, kind, ip, port, path, ui) in targets(tier):
        host_ref, port_ref, path_ref = reference(form, t)
        want_port = port_ref if port_ref is not None else (443 if form == 'auth' else 80)
        if kind == 'name':
            addr = (ip, want_port)
            dns = {h: ip, h.lower(): ip}
        else:
            addr = (h.strip('[]'), want_port)
            dns = {}
        beh = (lambda: HttpOrigin([], respond=lambda c, k, r: [OK])) if form == 'abs' else (lambda: RawOrigin(greeting=[b'hi']))
        out.append(Scenario('%s %s' % (form, t), ['--threadless'], mode='local',
                            clients=[dict(script=[('send', mkreq(form, t)), ('wait_idle',), ('close',)])],
                            origins={addr: beh}, dns=dns, kinds='', horizon=300,
                            features={'part': 'connect', 'form': form, 'host_kind': kind, 'userinfo': ui or 'none',
                                      'port': 'explicit' if port is not None else 'default',
                                      '_t': t, '_h': h, '_addr': addr, '_path': path_ref, '_expect': 'valid'}))
    # the request-TARGET names the destination; a Host header that names the same host with another port (or
    # another host altogether) does not
    for (form, t, h, kind, ip, port, path, ui) in targets('quick'):
        if ui or path not in ('', '/') or port not in (None, 8080):
            continue
        host_ref, port_ref, path_ref = reference(form, t)
        want_port = port_ref if port_ref is not None else (443 if form == 'auth' else 80)
        addr = (ip, want_port) if kind == 'name' else (h.strip('[]'), want_port)
        dns = {h: ip, h.lower(): ip, 'elsewhere.test': '10.9.0.99'} if kind == 'name' else {'elsewhere.test': '10.9.0.99'}
        beh = (lambda: HttpOrigin([], respond=lambda c, k, r: [OK])) if form == 'abs' else (lambda: RawOrigin(greeting=[b'hi']))
        for hname, hv in (('same-host-other-port', h.encode('utf-8') + b':8081'), ('other-host', b'elsewhere.test:8081')):
            out.append(Scenario('%s %s host-header=%s' % (form, t, hname), ['--threadless'], mode='local',
                                clients=[dict(script=[('send', mkreq(form, t, hv)), ('wait_idle',), ('close',)])],
                                origins={addr: beh}, dns=dns, kinds='', horizon=300,
                                features={'part': 'connect', 'form': form, 'host_kind': kind, 'userinfo': 'none',
                                          'port': 'explicit' if port is not None else 'default', 'host_header': hname,
                                          '_t': t, '_h': h, '_addr': addr, '_path': path_ref, '_expect': 'valid'}))
    for (label, method, t, exp) in DAMAGED:
        tb = t if isinstance(t, bytes) else t.encode()
        raw = method.encode() + b' ' + tb + b' HTTP/1.1\r\nHost: x\r\n\r\n'
        out.append(Scenario('damaged %s' % label, ['--threadless'], mode='local',
                            clients=[dict(script=[('send', raw), ('wait_idle',), ('close',)])],
                            origins={('10.9.0.2', p): (lambda: HttpOrigin([], respond=lambda c, k, r: [OK])) for p in (80, 8080, 443)},
                            dns={'h': '10.9.0.1', 'example.test': '10.9.0.2'}, kinds='', horizon=300,
                            features={'part': 'connect', 'form': 'damaged', 'case': label, '_t': t, '_expect': exp}))
    return out


def check(w):
    f = w.scn.features
    if w.died or w.run_exc:
        return [{'symptom': 'executor_died', 'features': {}, 'detail': w.run_exc}]
    c = w.clients[0]
    out = []
    detail = {'target': f['_t'], 'connect_log': w.connect_log, 'dns_log': w.dns_log, 'rx': bytes(c.rx)[:120]}

    def bad(sym, **kw):
        out.append({'symptom': sym, 'features': {}, 'detail': dict(detail, **kw)})

    if f['_expect'] != 'valid':
        r = oracles.parse_response(bytes(c.rx), b'GET', eof=c.eof) if c.rx else None
        rejected = bool(r and r['ok'] and r['status'] in (400, 502)) or (not c.rx and c.eof)
        if f['_expect'] == 'reject':
            # a name lookup / a connect() the OS refuses up front (port outside 1..65535) reaches nobody;
            # anything that could put a packet on the wire counts as mis-routing
            if [a for a in w.connect_log if 1 <= a[1][1] <= 65535]:
                bad('damaged_target_caused_outbound_connection')
            tb = f['_t'] if isinstance(f['_t'], bytes) else f['_t'].encode()
            for host, _port in w.dns_log:
                hb = host if isinstance(host, bytes) else str(host).encode()
                if hb not in tb:
                    bad('damaged_target_looked_up_a_name_it_does_not_contain', looked_up=host)
            if not rejected:
                bad('damaged_target_not_rejected_as_protocol_error')
        else:
            # may be rejected, or interpreted -- but then only towards host "h" (10.9.0.1) or the literal named
            for fam, addr, outcome in w.connect_log:
                if addr[0] not in ('10.9.0.1', '::1', '::'):
                    bad('ambiguous_target_mis_routed', addr=addr)
        return out
    addr = f['_addr']
    kind = f['host_kind']
    if len(w.connect_log) != 1:
        bad('not_exactly_one_outbound_connection')
        return out
    fam, got, outcome = w.connect_log[0]
    if (got[0], got[1]) != addr:
        bad('connected_to_wrong_address', got=(got[0], got[1]), want=addr)
    if kind == 'name':
        names = [d[0] for d in w.dns_log]
        if len(names) != 1 or names[0].lower() != f['_h'].lower():
            bad('resolved_other_than_exactly_the_named_host', got=names, want=f['_h'])
    else:
        if w.dns_log:
            bad('address_literal_was_sent_to_name_resolution', dns=w.dns_log)
        want_fam = 'inet' if kind == 'v4' else 'inet6'
        if fam != want_fam:
            bad('address_literal_connected_with_wrong_family', got=fam, want=want_fam)
    if f['form'] == 'abs' and not out:
        reqs = []
        for oc in w.origin_conns:
            reqs += getattr(oc, 'requests', [])
        want_path = f['_path'] or '/'
        if want_path.startswith('?'):
            want_path = '/' + want_path
        if not reqs or reqs[0]['target'].decode('utf-8', 'replace') != want_path:
            bad('origin_request_line_path_wrong', got=reqs[0]['target'] if reqs else None, want=want_path)
    return out


def run(tier):
    orig_finish = common.Report.finish

    def finish(rep):
        part_a(tier, rep)
        return orig_finish(rep)
    common.Report.finish = finish
    try:
        return netcheck.run(PROP, tier, scenarios(tier), check, 0, None, det_every=37,
                            rule='request-targets from a bounded URI grammar: 11 hosts (names incl. punycode/UTF-8/upper case, '
                                 'IPv4, IPv6 in four spellings) x 6 ports x 5 userinfo forms x 6 paths in absolute form, hosts x ports '
                                 'in authority form, 17 damaged targets; part A: real parser vs urlsplit on every target; part B: '
                                 'each target through the real forward proxy, OS-level connect / resolution log as observable')
    finally:
        common.Report.finish = orig_finish


def replay(path):
    import json
    body = json.load(open(path))
    if body['features'].get('part') == 'parse':
        common.bind_repo()
        from proxy.http.parser import HttpParser
        t = body['replay']['target']
        form = body['features']['form']
        try:
            p = HttpParser.request(mkreq(form, t))
            print('parsed host=%r port=%r path=%r' % (p.host, p.port, p.path))
        except Exception as e:  # noqa
            print('raised', type(e).__name__, e)
        print('reference', reference(form, t) if form != 'origin' else t)
        return 0
    return netcheck.replay(path, scenarios('thorough'), check)
