"""C01 -- relayed byte streams arrive exactly once, in order, unmodified (netmc)."""
from .. import netmc, netcheck
from ..netmc import Scenario, RawOrigin, HttpOrigin

PROP = 'C01'
ACK = b'HTTP/1.1 200 Connection established\r\n\r\n'
SCALED = ['--max-sendbuf-size', '4', '--client-recvbuf-size', '3', '--server-recvbuf-size', '5']
CONNECT = b'CONNECT t.test:443 HTTP/1.1\r\nHost: t.test:443\r\n\r\n'
GET = b'GET http://h.test/r HTTP/1.1\r\nHost: h.test\r\n\r\n'


def stamp(n, salt=0):
    """n bytes, every aligned 4-byte group distinct (position stamped)."""
    out = bytearray()
    i = 0
    while len(out) < n:
        out += bytes([(salt + i) & 0xff, ((i >> 8) + 1) & 0xff, (i * 7 + 3) & 0xff, 0x41 + (i % 26)])
        i += 1
    return bytes(out[:n])


PAYLOADS = {
    'empty': b'',
    'one': b'a',
    'text7': b'abcdefg',
    'bin': b'\x00\xff\r\n\r\n\x00',
    's64': stamp(64),
}


def pkname(pk):
    return '-'.join(str(len(p)) for p in pk) if len(pk) < 6 else 'x%d' % len(pk)


def packings(data, tier, limit=None):
    """List of piece-lists."""
    if not data:
        return [[]]
    out = [[data]]
    n = len(data)
    cuts = range(1, n) if (tier == 'thorough' or n <= 12) else sorted(set(
        [1, 2, n // 3, n // 2, n - 2, n - 1]) & set(range(1, n)))
    for c in cuts:
        out.append([data[:c], data[c:]])
    if n <= 16 or tier == 'thorough' and n <= 48:
        out.append([data[i:i + 1] for i in range(n)])
    if limit:
        out = out[:limit]
    return out


def tunnel_scenarios(tier):
    out = []
    modes = ['local']
    flagsets = [('scaled', SCALED), ('default', [])]
    names = ['empty', 'one', 'text7', 'bin'] + (['s64'] if tier == 'thorough' else [])
    for fname, fl in flagsets:
        for cn in names:
            for un in names:
                if cn == 'empty' and un == 'empty':
                    continue
                c2u, u2c = PAYLOADS[cn], PAYLOADS[un][::-1]
                cpk = packings(c2u, tier, 3 if tier == 'quick' else 6)
                upk = packings(u2c, tier, 3 if tier == 'quick' else 6)
                for ci, cp in enumerate(cpk):
                    for ui, up in enumerate(upk):
                        if tier == 'quick' and ci and ui:
                            continue
                        for origin_first in (True, False):
                            if not origin_first and not c2u:
                                continue
                            script = [('send', CONNECT), ('wait_recv', len(ACK))]
                            script += [('send', p) for p in cp]
                            script += [('wait_recv', len(ACK) + len(u2c)), ('wait_idle',), ('close',)]
                            if cp and ui == 0:
                                # variant: the client does not wait for the ack -- its first tunnel bytes
                                # travel in the same segment as the end of the CONNECT request
                                early = [('send', CONNECT + cp[0])] + [('send', p) for p in cp[1:]] + \
                                    [('wait_recv', len(ACK) + len(u2c)), ('wait_idle',), ('close',)]
                                ebeh = (lambda up=up: RawOrigin(greeting=up)) if origin_first else \
                                    (lambda up=up, n=len(c2u): RawOrigin(after={n: up}))
                                out.append(Scenario(
                                    'tunnel-early/%s/%s>%s/%s<%s/%s' % (fname, cn, pkname(cp), un, pkname(up),
                                                                      'of' if origin_first else 'cf'),
                                    ['--threadless'] + fl, mode='local', clients=[dict(script=early)],
                                    origins={('10.0.0.2', 443): ebeh}, dns={'t.test': '10.0.0.2'},
                                    kinds='ARS', horizon=3000,
                                    features={'role': 'tunnel', 'flags': fname, 'c2u': c2u, 'u2c': u2c, 'early_data': True,
                                              '_expect_c': ACK + u2c, '_expect_u': c2u}))
                            if origin_first:
                                beh = (lambda up=up: RawOrigin(greeting=up))
                            else:
                                beh = (lambda up=up, n=len(c2u): RawOrigin(after={n: up}))
                            name = 'tunnel/%s/%s>%s/%s<%s/%s' % (fname, cn, pkname(cp), un, pkname(up), 'of' if origin_first else 'cf')
                            out.append(Scenario(
                                name, ['--threadless'] + fl, mode='local',
                                clients=[dict(script=script)],
                                origins={('10.0.0.2', 443): beh}, dns={'t.test': '10.0.0.2'},
                                kinds='ARS', horizon=3000,
                                features={'role': 'tunnel', 'flags': fname, 'c2u': c2u, 'u2c': u2c,
                                          '_expect_c': ACK + u2c, '_expect_u': c2u}))
    # the upstream finishes FIRST (sends its bytes and closes) while the client is still talking: whatever the
    # client does meanwhile -- sends more tunnel bytes, half-closes -- every upstream byte must still arrive.
    # (Slow / one-byte client reads and short writes come from the R and S deviations.)
    for fname, fl in flagsets:
        for un in ('text7', 'bin', 's64'):      # s64: more than the proxy has read by the time the client's bytes bounce
            u2c = PAYLOADS[un]
            for upi, up in enumerate(packings(u2c, tier, 2 if tier == 'quick' else 4)):
                for cname, tail in (('talks-on', [('send', b'ab'), ('wait_recv', len(ACK) + 1), ('send', b'cd'), ('wait_eof',)]),
                                    ('talks-then-halfcloses', [('send', b'ab'), ('wait_recv', len(ACK) + 1), ('send', b'cd'),
                                                               ('shutdown_wr',), ('wait_eof',)]),
                                    ('pipelines-at-once', [('send', b'abcd'), ('wait_eof',)])):
                    out.append(Scenario(
                        'tunnel-upstream-first/%s/%s<%s/%s' % (fname, un, pkname(up), cname), ['--threadless'] + fl, mode='local',
                        clients=[dict(script=[('send', CONNECT), ('wait_recv', len(ACK))] + tail)],
                        origins={('10.0.0.2', 443): (lambda up=up: RawOrigin(greeting=up, finally_='close'))},
                        dns={'t.test': '10.0.0.2'}, kinds='ARS', horizon=3000,
                        features={'role': 'tunnel', 'flags': fname, 'c2u': b'abcd', 'u2c': u2c, 'upstream_closes_first': True,
                                  'client_behaviour': cname, **({'_bound': 1} if un == 's64' else {}),
                                  '_expect_c': ACK + u2c, '_expect_eof': True}))
    # the CLIENT finishes first: it uploads far more than the socket buffers hold and closes at once, while the
    # upstream drains slowly -- every uploaded byte must still reach the upstream
    up = stamp(60000, 21)
    for fname, fl in flagsets:
        if fname != 'default':
            continue
        for cname, tail in (('closes-at-once', [('send', up), ('close',)]),
                            ('half-closes-at-once', [('send', up), ('shutdown_wr',), ('wait_eof',)])):
            out.append(Scenario(
                'tunnel-client-first/%s/upload60k/%s' % (fname, cname), ['--threadless'] + fl, mode='local',
                clients=[dict(script=[('send', CONNECT), ('wait_recv', len(ACK))] + tail)],
                origins={('10.0.0.2', 443): (lambda: netmc.TimedOrigin(reads=[(0.05 * (k + 1), 7000) for k in range(40)]))},
                dns={'t.test': '10.0.0.2'}, kinds='', horizon=3000, min_time=1.5,
                features={'role': 'tunnel', 'flags': fname, 'c2u': up, 'u2c': b'', 'client_closes_first': True,
                          '_expect_c': ACK, '_expect_u': up, '_sockbuf': 4096, '_bound': 0, '_dt_busy': 0.01}))
    return out


def chunked(body, sizes, ext=b'', trailers=b''):
    out = b''
    pos = 0
    for s in sizes:
        out += ('%x' % s).encode() + ext + b'\r\n' + body[pos:pos + s] + b'\r\n'
        pos += s
    return out + b'0' + ext + b'\r\n' + trailers + b'\r\n'


RESPONSES = {
    'cl': b'HTTP/1.1 200 OK\r\nContent-Length: 9\r\n\r\n0\r\n\r\nxyz!',
    'cl0': b'HTTP/1.1 200 OK\r\nContent-Length: 0\r\n\r\n',
    'chunked': b'HTTP/1.1 200 OK\r\nTransfer-Encoding: chunked\r\n\r\n' + chunked(b'ab\r\ncde', (3, 4)),
    'chunked_ext': b'HTTP/1.1 200 OK\r\nTransfer-Encoding: chunked\r\n\r\n' + chunked(b'abcde', (2, 3), ext=b';k=v'),
    'chunked_trailer': b'HTTP/1.1 200 OK\r\nTransfer-Encoding: chunked\r\n\r\n' +
                       chunked(b'abc', (3,), trailers=b'X-Sum: 1\r\n'),
    'continue': b'HTTP/1.1 100 Continue\r\n\r\nHTTP/1.1 200 OK\r\nContent-Length: 2\r\n\r\nok',
    'nocontent': b'HTTP/1.1 204 No Content\r\nX-A: b\r\n\r\n',
    'notmod': b'HTTP/1.1 304 Not Modified\r\nETag: "x"\r\n\r\n',
    'bin': b'HTTP/1.1 200 OK\r\nContent-Length: 6\r\n\r\n\x00\xff\r\n\x00\x01',
}
CLOSE_DELIMITED = b'HTTP/1.0 200 OK\r\nServer: x\r\n\r\nline1\r\n\r\nline2'


def http_scenarios(tier):
    out = []
    for fname, fl in (('scaled', SCALED), ('default', [])):
        for rn, resp in RESPONSES.items():
            for pi, pk in enumerate(packings(resp, tier, None if tier == 'thorough' else 8)):
                script = [('send', GET), ('wait_recv', len(resp)), ('wait_idle',), ('close',)]
                out.append(Scenario(
                    'http/%s/%s/%s' % (fname, rn, pkname(pk)), ['--threadless'] + fl, mode='local',
                    clients=[dict(script=script)],
                    origins={('10.0.0.1', 80): (lambda pk=pk: HttpOrigin([pk]))}, dns={'h.test': '10.0.0.1'},
                    kinds='ARS', horizon=3000,
                    features={'role': 'http', 'flags': fname, 'response': rn, '_expect_c': resp}))
        # close-delimited: origin closes after the body, client must get all of it and then EOF
        for pi, pk in enumerate(packings(CLOSE_DELIMITED, tier, 6)):
            script = [('send', GET), ('wait_eof',)]
            out.append(Scenario(
                'http/%s/closedelim/%s' % (fname, pkname(pk)), ['--threadless'] + fl, mode='local',
                clients=[dict(script=script)],
                origins={('10.0.0.1', 80): (lambda pk=pk: HttpOrigin([pk], then={0: 'close'}))},
                dns={'h.test': '10.0.0.1'}, kinds='ARS', horizon=3000,
                features={'role': 'http', 'flags': fname, 'response': 'close_delimited',
                          '_expect_c': CLOSE_DELIMITED, '_expect_eof': True}))
        # two exchanges on one connection (keep-alive), different framings
        r1, r2 = RESPONSES['chunked'], RESPONSES['cl']
        for pi, (p1, p2) in enumerate([([r1], [r2]), ([r1[:20], r1[20:]], [r2[:5], r2[5:]])]):
            script = [('send', GET), ('wait_recv', len(r1)), ('send', GET.replace(b'/r', b'/s')),
                      ('wait_recv', len(r1) + len(r2)), ('wait_idle',), ('close',)]
            out.append(Scenario(
                'http/%s/keepalive2/%d' % (fname, pi), ['--threadless'] + fl, mode='local',
                clients=[dict(script=script)],
                origins={('10.0.0.1', 80): (lambda p1=p1, p2=p2: HttpOrigin([p1, p2]))},
                dns={'h.test': '10.0.0.1'}, kinds='ARS', horizon=3000,
                features={'role': 'http', 'flags': fname, 'response': 'two_exchanges', '_expect_c': r1 + r2}))
        # the client PIPELINES two requests; the origin's answer is one byte stream of two responses whose
        # boundary need not coincide with a segment boundary: every packing of the two-response stream
        for (n1, n2) in (('cl', 'chunked'), ('chunked', 'cl'), ('cl0', 'cl')):
            r1, r2 = RESPONSES[n1], RESPONSES[n2]
            two = GET + GET.replace(b'/r', b'/s')
            for pk in packings(r1 + r2, tier, None if tier == 'thorough' else 10):
                out.append(Scenario(
                    'http/%s/pipelined2-%s+%s/%s' % (fname, n1, n2, pkname(pk)), ['--threadless'] + fl, mode='local',
                    clients=[dict(script=[('send', two), ('wait_recv', len(r1) + len(r2)), ('wait_idle',), ('close',)])],
                    origins={('10.0.0.1', 80): (lambda pk=pk, n=len(two): RawOrigin(after={n + 20: list(pk)}))},
                    dns={'h.test': '10.0.0.1'}, kinds='ARS', horizon=3000,
                    features={'role': 'http', 'flags': fname, 'response': 'two_pipelined', '_expect_c': r1 + r2, '_bound': 1}))
    return out


def big_scenarios(tier):
    """Full-size thresholds with kernel-produced partial writes (small socket buffers, paced reader)."""
    out = []
    sizes = [200 * 1024] + ([3 * 1024 * 1024] if tier == 'thorough' else [])
    for n in sizes:
        down, up = stamp(n, 1), stamp(n // 2, 9)
        script = [('send', CONNECT), ('wait_recv', len(ACK))]
        for i in range(0, len(up), 50000):
            script.append(('send', up[i:i + 50000]))
        script += [('wait_recv', len(ACK) + len(down)), ('wait_idle',), ('close',)]
        pieces = [down[i:i + 70000] for i in range(0, len(down), 70000)]
        for rl in (4096, 100000):
            out.append(Scenario(
                'tunnel/big/%d/rl%d' % (n, rl), ['--threadless'], mode='local',
                clients=[dict(script=script, read_limit=rl)],
                origins={('10.0.0.2', 443): (lambda pieces=pieces: RawOrigin(greeting=pieces))},
                dns={'t.test': '10.0.0.2'}, kinds='', horizon=60000,
                features={'role': 'tunnel', 'flags': 'fullsize', 'size': n, '_expect_c': ACK + down,
                          '_expect_u': up, '_sockbuf': 4096, '_bound': 0}))
    return out


def first_diff(a, b):
    n = min(len(a), len(b))
    for i in range(n):
        if a[i] != b[i]:
            return i
    return n


def check(w):
    f = w.scn.features
    out = []
    if w.died or w.run_exc:
        out.append({'symptom': 'executor_died', 'features': {}, 'detail': w.run_exc})
        return out
    c = w.clients[0]
    exp_c = f['_expect_c']
    got = bytes(c.rx)
    if got != exp_c:
        i = first_diff(got, exp_c)
        kind = 'client_stream_truncated' if exp_c.startswith(got) else (
            'client_stream_extra' if got.startswith(exp_c) else 'client_stream_corrupt')
        out.append({'symptom': kind, 'features': {},
                    'detail': {'first_diff_at': i, 'got_len': len(got), 'want_len': len(exp_c),
                               'got': got[max(0, i - 8):i + 24], 'want': exp_c[max(0, i - 8):i + 24],
                               'client_events': c.events}})
    if '_expect_u' in f:
        exp_u = f['_expect_u']
        gotu = bytes(w.origin_conns[0].rx) if w.origin_conns else b''
        if gotu != exp_u:
            i = first_diff(gotu, exp_u)
            kind = 'upstream_stream_truncated' if exp_u.startswith(gotu) else (
                'upstream_stream_extra' if gotu.startswith(exp_u) else 'upstream_stream_corrupt')
            out.append({'symptom': kind, 'features': {},
                        'detail': {'first_diff_at': i, 'got_len': len(gotu), 'want_len': len(exp_u),
                                   'got': gotu[max(0, i - 8):i + 24], 'want': exp_u[max(0, i - 8):i + 24]}})
    if f.get('_expect_eof') and not c.eof:
        out.append({'symptom': 'client_no_eof', 'features': {}, 'detail': c.events})
    if w.no_quiescence and not out:
        out.append({'symptom': 'no_quiescence', 'features': {}, 'detail': 'horizon %d' % w.scn.horizon})
    return out


def scenarios(tier):
    return tunnel_scenarios(tier) + http_scenarios(tier) + big_scenarios(tier)


def thorough_scenarios():
    """d <= 2 on the quick corpus (d <= 3 on its smallest members), d <= 1 on the corpus with every
    single cut of every stream, plus the 3 MiB transfer."""
    base = scenarios('quick')
    names = set()
    out = []
    for s in base:
        names.add(s.name)
        if '_bound' not in s.features:
            small = s.features['flags'] == 'default' and len(s.features.get('_expect_c', b'')) <= 50
            s.features['_bound'] = 3 if small and s.features.get('role') == 'tunnel' and \
                len(s.features.get('c2u', b'')) + len(s.features.get('u2c', b'')) <= 2 else 2
        out.append(s)
    for s in scenarios('thorough'):
        if s.name not in names:
            s.features.setdefault('_bound', 1)
            out.append(s)
    return out


def run(tier):
    scns = scenarios(tier) if tier == 'quick' else thorough_scenarios()
    bound = 1 if tier == 'quick' else 2
    return netcheck.run(PROP, tier, scns, check, bound, None,
                        assumptions=['payload alphabet and sizes as listed in DESIGN.md C01; TLS-wrapped sends '
                                     'are not under the socket shim'])


def replay(path):
    import json
    return netcheck.replay(path, thorough_scenarios(), check)
