"""C20 -- idle connections are reaped after the timeout and active ones never are (netmc under the
virtual clock; event times placed just before / just after the threshold)."""
from .. import netmc, netcheck
from ..netmc import Scenario, HttpOrigin, RawOrigin, TimedOrigin
from .c01 import stamp

PROP = 'C20'
OK = b'HTTP/1.1 200 OK\r\nContent-Length: 2\r\n\r\nok'
ACK = b'HTTP/1.1 200 Connection established\r\n\r\n'
GET = b'GET http://h.test/%d HTTP/1.1\r\nHost: h.test\r\n\r\n'
CONNECT = b'CONNECT t.test:443 HTTP/1.1\r\nHost: t.test:443\r\n\r\n'
TICK = 0.025
PERIOD = 1.0        # cleanup period of the threadless reaper
SLACK = 0.15


def scenarios(tier):
    out = []
    origins = {('10.0.0.1', 80): lambda: HttpOrigin([], respond=lambda c, k, r: [OK]),
               ('10.0.0.2', 443): lambda: RawOrigin(greeting=[b'hello'])}
    dns = {'h.test': '10.0.0.1', 't.test': '10.0.0.2'}
    timeouts = [1, 2] + ([5] if tier == 'thorough' else [])
    phases = [0, 13, 27] if tier == 'quick' else [0, 7, 13, 20, 27, 35]
    for mode in ('local', 'threaded'):
        for T in timeouts:
            fa = ['--threaded' if mode == 'threaded' else '--threadless', '--timeout', str(T)]
            for ph in phases:
                def S(name, script, feats=None, og=origins, sockbuf=None, read_limit=None, T=T, ph=ph, fa=fa, mode=mode):
                    f = {'mode': mode, 'timeout': T, 'trace': name, '_T': T}
                    f.update(feats or {})
                    if sockbuf:
                        f['_sockbuf'] = sockbuf
                    total_sleep = sum(st[1] for st in script if st[0] == 'sleep')
                    out.append(Scenario('%s/T%d/ph%d/%s' % (mode, T, ph, name), fa, mode=mode,
                                        clients=[dict(script=script, start_turn=ph, read_limit=read_limit)],
                                        origins=og, dns=dns, kinds='', horizon=6000,
                                        min_time=max(total_sleep + T + 3.5, f.get('_min_time', 0)), features=f))
                # nothing ever sent
                S('silent', [('wait_eof',)])
                # half a request, then silence
                S('half-request', [('send', b'GET http://h.te'), ('wait_eof',)])
                # a complete request head announcing a body, part of the body, then silence
                S('half-body', [('send', b'POST http://h.test/u HTTP/1.1\r\nHost: h.test\r\nContent-Length: 10\r\n\r\nabc'), ('wait_eof',)])
                S('half-chunked-body', [('send', b'POST http://h.test/u HTTP/1.1\r\nHost: h.test\r\nTransfer-Encoding: chunked\r\n\r\n5\r\nab'),
                                        ('wait_eof',)])
                # request/response, then silence
                S('after-exchange', [('send', GET % 1), ('wait_recv', len(OK)), ('wait_eof',)])
                # activity resumes just before the threshold: must survive until the NEW deadline
                for eps_name, eps in (('minus-1-tick', -TICK), ('minus-2-ticks', -2 * TICK), ('half', -T / 2.0)):
                    S('resume-%s' % eps_name,
                      [('send', GET % 1), ('wait_recv', len(OK)), ('sleep', T + eps), ('send', GET % 2),
                       ('wait_recv', 2 * len(OK)), ('wait_eof',)], {'resumes': True})
                # repeated keep-alives, each just inside the window
                S('keepalive-x3',
                  [('send', GET % 1), ('wait_recv', len(OK))] +
                  sum([[('sleep', T - 2 * TICK), ('send', GET % (i + 2)), ('wait_recv', (i + 2) * len(OK))] for i in range(3)], []) +
                  [('wait_eof',)], {'resumes': True})
                # the FIRST request itself arrives slowly: head (and upload body) in pieces, each gap inside the window,
                # the whole taking several timeouts -- traffic is traffic, also before the first request is complete
                g = GET % 7
                cut = [g[:9], g[9:24], g[24:len(g) - 2], g[len(g) - 2:]]
                S('slow-first-request-head',
                  sum([[('send', pc), ('sleep', T - 2 * TICK)] for pc in cut[:-1]], []) + [('send', cut[-1]), ('wait_recv', len(OK)), ('wait_eof',)],
                  {'resumes': True})
                post = b'POST http://h.test/u HTTP/1.1\r\nHost: h.test\r\nContent-Length: 9\r\n\r\n'
                S('slow-first-request-body',
                  [('send', post + b'abc'), ('sleep', T - 2 * TICK), ('send', b'def'), ('sleep', T - 2 * TICK), ('send', b'ghi'),
                   ('wait_recv', len(OK)), ('wait_eof',)], {'resumes': True})
                # tunnel: upstream keeps talking to the client (writes to the client are client-side traffic)
                S('tunnel-idle', [('send', CONNECT), ('wait_recv', len(ACK) + 5), ('wait_eof',)])
                S('tunnel-client-resumes', [('send', CONNECT), ('wait_recv', len(ACK) + 5), ('sleep', T - TICK),
                                            ('send', b'ping'), ('wait_eof',)], {'resumes': True})
                # the UPSTREAM keeps the connection alive: it pushes a few bytes every (T - 2 ticks); each push is
                # written to the client, i.e. client-side traffic -- the tunnel must survive until the last push
                # plus the timeout, then be reaped
                drips = [((i + 1) * (T - 2 * TICK), b'drip%d' % i) for i in range(3)]
                S('tunnel-upstream-drips', [('send', CONNECT), ('wait_recv', len(ACK) + 5 + 15), ('wait_eof',)],
                  {'resumes': True, '_min_time': drips[-1][0] + T + 3.5, '_expect_rx_prefix': ACK + b'hello' + b'drip0drip1drip2'},
                  og={('10.0.0.2', 443): (lambda drips=drips: TimedOrigin(greeting=[b'hello'], schedule=drips))})
                # upstream activity that is NOT client traffic: the client uploads 40 kB and goes silent; the upstream
                # drains it slowly (7 kB every T/4 over 4 KiB buffers), so the proxy keeps getting upstream
                # write-ready events -- the silent client is idle all the same and must be reaped on time
                S('tunnel-upload-slow-upstream', [('send', CONNECT), ('wait_recv', len(ACK) + 5), ('send', b'U' * 40000), ('wait_eof',)],
                  {'_min_time': 7 * T + 3.5},
                  og={('10.0.0.2', 443): (lambda T=T: TimedOrigin(greeting=[b'hello'], reads=[((k + 1) * T / 4.0, 7000) for k in range(16)]))},
                  sockbuf=4096)
                # pending output: the client does not read while a large response is queued; it resumes reading
                # after more than the timeout -- nothing may be lost, and the idle clock restarts at the last flush
                big = b'HTTP/1.1 200 OK\r\nContent-Length: 300000\r\n\r\n' + stamp(300000, 4)
                S('pending-output',
                  [('send', GET % 9), ('stop_reading',), ('sleep', T + 1.5), ('start_reading',), ('wait_recv', len(big)),
                   ('wait_eof',)],
                  {'pending': True, '_expect_rx': big},
                  og={('10.0.0.1', 80): (lambda big=big: HttpOrigin([], respond=lambda c, k, r: [big]))},
                  sockbuf=4096)
    # an idle connection next to a BUSY one: the event loop never sees a select() time-out while the
    # neighbour chatters, but time passes all the same (each busy iteration is priced at DT_BUSY)
    DT_BUSY = 0.01
    for T in timeouts:
        for ph in phases[:2]:
            for idle_name, idle_script in (('silent', [('wait_eof',)]),
                                           ('after-exchange', [('send', GET % 1), ('wait_recv', len(OK)), ('wait_eof',)])):
                n = int((T + PERIOD + 1.0) / DT_BUSY)
                busy = [('send', CONNECT), ('wait_recv', len(ACK) + 5)] + [('send', b'x')] * n + [('wait_eof',)]
                out.append(Scenario('local/T%d/ph%d/%s+busy-neighbour' % (T, ph, idle_name), ['--threadless', '--timeout', str(T)],
                                    mode='local', clients=[dict(script=idle_script, start_turn=ph), dict(script=busy, start_turn=0)],
                                    origins=origins, dns=dns, kinds='', horizon=6000, min_time=2 * T + PERIOD + 4.5,
                                    features={'mode': 'local', 'timeout': T, 'trace': idle_name + '+busy-neighbour', '_T': T,
                                              'busy_neighbour': True, '_dt_busy': DT_BUSY}))
    return out


def check(w):
    f = w.scn.features
    T = f['_T']
    if w.died or w.run_exc:
        return [{'symptom': 'executor_died', 'features': {}, 'detail': w.run_exc}]
    c = w.clients[0]
    out = []
    # times of SUT-side client traffic and of the SUT closing the client socket
    acts = []
    close_t = None
    for (turn, actor, op, d) in w.trace:
        if actor != c.name:
            continue
        t = w.turn_time.get(turn, None)
        if op == 'sut_recv' and d:
            acts.append((t, 'read'))
        elif op == 'sut_send' and d[1] > 0:
            acts.append((t, 'write'))
        elif op == 'sut_close' and close_t is None:
            close_t = t
    connect_t = None
    for (turn, actor, op, d) in w.trace:
        if actor == c.name and op == 'connect':
            connect_t = w.turn_time.get(turn)
            break
    detail = {'timeout': T, 'activity': [(round(t - 1000, 3), k) for t, k in acts][-6:],
              'close_at': None if close_t is None else round(close_t - 1000, 3),
              'connected_at': None if connect_t is None else round(connect_t - 1000, 3),
              'client_events': c.events[-3:]}
    if '_expect_rx' in f and bytes(c.rx) != f['_expect_rx']:
        out.append({'symptom': 'connection_with_pending_output_was_cut', 'features': {},
                    'detail': dict(detail, got=len(c.rx), want=len(f['_expect_rx']))})
        return out
    if '_expect_rx_prefix' in f and bytes(c.rx) != f['_expect_rx_prefix']:
        out.append({'symptom': 'connection_kept_alive_by_upstream_traffic_was_cut', 'features': {},
                    'detail': dict(detail, got=bytes(c.rx)[-40:], want=f['_expect_rx_prefix'][-40:])})
        return out
    if close_t is None:
        out.append({'symptom': 'idle_connection_never_reaped', 'features': {}, 'detail': detail})
        return out
    before = [t for t, _k in acts if t <= close_t]
    t0 = max(before) if before else connect_t
    gap = close_t - t0
    if gap <= T - 1e-9:
        out.append({'symptom': 'closed_before_the_timeout_elapsed', 'features': {}, 'detail': dict(detail, gap=round(gap, 3))})
    limit = T + (PERIOD if f['mode'] != 'threaded' else 0.0) + SLACK
    if gap > limit:
        out.append({'symptom': 'reaped_too_late', 'features': {}, 'detail': dict(detail, gap=round(gap, 3), limit=limit)})
    return out


def run(tier):
    return netcheck.run(PROP, tier, scenarios(tier), check, 0, None, det_every=5,
                        rule='timeouts x reaper phase offsets x timed traces (silence, half request, half a request body, after an exchange, activity '
                             'resuming 1 tick / 2 ticks / half a timeout before the deadline, three keep-alives in a row, tunnel '
                             'with and without client activity, upstream pushing data on its own clock, upstream draining an upload slowly while the client is silent, output pending across the deadline) x {threadless, threaded}, '
                             'under a virtual clock advanced by select() timeouts; plus an idle connection beside a continuously busy tunnel, '
                             'where every busy loop iteration costs 10 ms of virtual time')


def replay(path):
    return netcheck.replay(path, scenarios('thorough'), check)
