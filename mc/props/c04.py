"""C04 -- each request on a persistent connection is answered in order by the right origin
(netmc): forward proxy, built-in web server, reverse proxy."""
import itertools
from .. import netmc, netcheck, plugins, oracles
from ..netmc import Scenario, HttpOrigin

PROP = 'C04'
ADDR = {'a': ('10.0.1.1', 80), 'b': ('10.0.1.2', 80), 'a8': ('10.0.1.1', 8080), 'u1': ('10.0.2.1', 80), 'u2': ('10.0.2.2', 81),
        'u1b': ('10.0.2.1', 8080)}
DNS = {'a.test': '10.0.1.1', 'b.test': '10.0.1.2', 'u1.test': '10.0.2.1', 'u2.test': '10.0.2.2'}


def stamp_response(oid):
    def respond(conn, k, req):
        body = b'%s|%s|%s|%s' % (oid.encode(), req['method'], req['target'], req['body'])
        return [b'HTTP/1.1 200 OK\r\nContent-Length: %d\r\n\r\n' % len(body) + body]
    return respond


def origin(oid):
    return lambda: HttpOrigin([], respond=stamp_response(oid))


def web_plugins():
    if 'c04web' not in plugins._cache:
        netmc.install()
        from proxy.http.server import HttpWebServerBasePlugin, httpProtocolTypes
        from proxy.http.responses import okResponse

        def mk(name, prefix):
            class P(HttpWebServerBasePlugin):
                def routes(self):
                    return [(httpProtocolTypes.HTTP, prefix)]

                def handle_request(self, request):
                    body = b'%s|%s|%s|%s' % (name.encode(), request.method, request.path, request.body or b'')
                    self.client.queue(okResponse(content=body, compress=False))
            P.__name__ = P.__qualname__ = 'VerifRoute_' + name
            return P
        plugins._cache['c04web'] = [mk('wa', r'/wa/'), mk('wb', r'/wb/')]
    return plugins._cache['c04web']


def _literal(request):
    """Dynamic route answered by the plugin itself (no upstream), stamped like an origin."""
    body = b'lit|%s|%s|%s' % (request.method, request.path, request.body or b'')
    return memoryview(b'HTTP/1.1 200 OK\r\nContent-Length: %d\r\n\r\n' % len(body) + body)


def rev_plugin():
    return plugins.reverse([(r'/r1/', [b'http://u1.test/p1']), (r'/r2/', [b'http://u2.test:81/p2']),
                            (r'/r3/', [b'http://u1.test:8080/p3'])], {r'/lit/': _literal}, name='VerifRevC04c')


# ---- request alphabet: (symbol, target kind) -> bytes, expectation

CONN = {'none': b'', 'close-last': b'', 'http10-last': b'', 'ka-lower': b'Connection: keep-alive\r\n', 'ka-title': b'Connection: Keep-Alive\r\n',
        'ka-list': b'Connection: keep-alive, x-foo\r\nX-Foo: 1\r\n'}


def mkreq(role, sym, i, conn='none', last=False):
    """Returns (wire bytes, expected dict(origin, method, path, body))."""
    if role == 'forward':
        host = {'G': 'a', 'P': 'a', 'C': 'a', 'B': 'b', 'D': 'a', 'L': 'b'}[sym]
        port = b':8080' if sym == 'D' else b''
        path = b'/x%d' % i
        target = b'http://%s.test%s%s' % (host.encode(), port, path)
        hosthdr = b'Host: %s.test%s\r\n' % (host.encode(), port) + CONN[conn]
        exp_path = path
        exp_origin = 'a8' if sym == 'D' else host
    elif role == 'web':
        route = {'G': 'wa', 'P': 'wa', 'C': 'wa', 'B': 'wb', 'D': 'wb', 'L': 'wb'}[sym]
        path = b'/%s/x%d' % (route.encode(), i)
        target, hosthdr, exp_path, exp_origin = path, b'Host: front\r\n' + CONN[conn], path, route
    else:
        route = {'G': 'r1', 'P': 'r1', 'C': 'r1', 'B': 'r2', 'D': 'r3', 'L': 'lit'}[sym]
        path = b'/%s/x%d' % (route.encode(), i)
        target, hosthdr = path, b'Host: front\r\n' + CONN[conn]
        exp_path = {'r1': b'/p1', 'r2': b'/p2', 'r3': b'/p3', 'lit': path}[route]
        exp_origin = {'r1': 'u1', 'r2': 'u2', 'r3': 'u1b', 'lit': 'lit'}[route]
    if sym in ('G', 'B', 'D', 'L'):
        raw = b'GET %s HTTP/1.1\r\n%s\r\n' % (target, hosthdr)
        method, body = b'GET', b''
    elif sym == 'P':
        body = b'abc%d' % i
        raw = b'POST %s HTTP/1.1\r\n%sContent-Length: %d\r\n\r\n%s' % (target, hosthdr, len(body), body)
        method = b'POST'
    else:
        body = b'chunk%d' % i
        raw = b'POST %s HTTP/1.1\r\n%sTransfer-Encoding: chunked\r\n\r\n3\r\n%s\r\n%x\r\n%s\r\n0\r\n\r\n' % (
            target, hosthdr, body[:3], len(body) - 3, body[3:])
        method = b'POST'
    if last and conn == 'close-last':
        raw = raw.replace(b'\r\n', b'\r\nConnection: close\r\n', 1)
    if last and conn == 'http10-last':
        raw = raw.replace(b' HTTP/1.1\r\n', b' HTTP/1.0\r\n', 1)
    return raw, {'origin': exp_origin, 'method': method, 'path': exp_path, 'body': body}


def sequences(tier):
    syms = 'GPCBD'
    seqs = [s for n in (1, 2) for s in itertools.product(syms, repeat=n)]
    if tier == 'thorough':
        seqs += list(itertools.product(syms, repeat=3))
        seqs += [s for n in (2, 3) for s in itertools.product('GBL', repeat=n) if 'L' in s]
    else:
        seqs += [('G', 'L'), ('L', 'G'), ('G', 'L', 'G'), ('L', 'L'), ('B', 'L', 'G')]
        seqs += [('G', 'G', 'G'), ('G', 'P', 'G'), ('P', 'C', 'G'), ('G', 'B', 'G'), ('C', 'C', 'C'), ('B', 'G', 'B'),
                 ('G', 'D', 'G'), ('D', 'B', 'D')]
    return seqs


def packings(reqs, tier):
    """(class, [pieces], wait_between)"""
    out = [('per_request_wait', list(reqs), True), ('per_request_pipelined', list(reqs), False)]
    if len(reqs) > 1:
        whole = b''.join(reqs)
        out.append(('all_in_one', [whole], False))
        # a boundary-crossing cut: k requests + part of the next
        b = len(reqs[0])
        cutset = sorted(set([b - 1, b + 1, b + len(reqs[1]) // 2]))
        if tier == 'thorough':
            cutset = sorted(set(cutset + list(range(max(1, b - 3), min(len(whole) - 1, b + 4)))))
        for c in cutset:
            if 0 < c < len(whole):
                out.append(('cut@%+d' % (c - b), [whole[:c], whole[c:]], False))
        # a request that arrives in two segments with the RESPONSE to the request before it completing in between
        # (the client waits after each segment): second request straddling response 1, third straddling response 2
        h = len(reqs[1]) // 2
        out.append(('straddle2', [reqs[0] + reqs[1][:h], reqs[1][h:]] + list(reqs[2:]), True))
        if len(reqs) >= 3:
            h = len(reqs[2]) // 2
            out.append(('straddle3', [reqs[0], reqs[1] + reqs[2][:h], reqs[2][h:]], True))
    else:
        r = reqs[0]
        out.append(('split_mid', [r[:len(r) // 2], r[len(r) // 2:]], False))
    return out


def scenarios(tier):
    out = []
    for role in ('forward', 'web', 'reverse'):
        if role == 'forward':
            fa, fo = ['--threadless'], {}
            origins = {ADDR['a']: origin('a'), ADDR['b']: origin('b'), ADDR['a8']: origin('a8')}
        elif role == 'web':
            fa, fo = ['--threadless', '--enable-web-server'], {'plugins': web_plugins()}
            origins = {}
        else:
            fa, fo = ['--threadless', '--enable-reverse-proxy'], {'plugins': [rev_plugin()]}
            origins = {ADDR['u1']: origin('u1'), ADDR['u2']: origin('u2'), ADDR['u1b']: origin('u1b')}
        for seq, conn in [(sq, 'none') for sq in sequences(tier)] + \
                [(sq, cn) for cn in ('ka-lower', 'ka-title', 'ka-list', 'close-last', 'http10-last')
                 for sq in sequences(tier) if len(sq) == 2 or (len(sq) == 3 and tier == 'thorough')]:
            built = [mkreq(role, s, i, conn, last=(i == len(seq) - 1)) for i, s in enumerate(seq)]
            reqs = [b[0] for b in built]
            exps = [b[1] for b in built]
            for cls, pieces, wait in packings(reqs, tier):
                if conn != 'none' and cls not in ('per_request_wait', 'per_request_pipelined', 'all_in_one'):
                    continue
                script = []
                for p in pieces:
                    script.append(('send', p))
                    if wait:
                        script.append(('wait_idle',))
                script += [('wait_idle',), ('close',)]
                origs = [e['origin'] for e in exps]
                out.append(Scenario(
                    '%s/%s%s/%s' % (role, ''.join(seq), '' if conn == 'none' else '+' + conn, cls), fa, flags_opts=fo, mode='local',
                    clients=[dict(script=script)], origins=origins, dns=DNS, kinds='AR' if tier == 'quick' else 'ARE', horizon=600,
                    features={'role': role, 'sequence': ''.join(seq), 'n_requests': len(seq),
                              'packing': 'cut' if cls.startswith('cut') else ('straddle' if cls.startswith('straddle') else cls),
                              'origins_differ': len(set(origs)) > 1,
                              'has_body': any(s in 'PC' for s in seq), 'connection_header': conn,
                              '_exps': exps}))
    # "the number of requests ... does not change this": 1 200 small requests packed into ONE segment
    # (and into two), each role
    for role in ('forward', 'web', 'reverse'):
        if role == 'forward':
            fa, fo, origins = ['--threadless'], {}, {ADDR['a']: origin('a')}
        elif role == 'web':
            fa, fo, origins = ['--threadless', '--enable-web-server'], {'plugins': web_plugins()}, {}
        else:
            fa, fo, origins = ['--threadless', '--enable-reverse-proxy'], {'plugins': [rev_plugin()]}, {ADDR['u1']: origin('u1')}
        n = 1200
        built = [mkreq(role, 'G', i) for i in range(n)]
        whole = b''.join(b[0] for b in built)
        for cls, pieces in (('all_in_one', [whole]), ('two_halves', [whole[:len(whole) // 2 + 7], whole[len(whole) // 2 + 7:]])):
            out.append(Scenario('%s/Gx%d/%s' % (role, n, cls), fa, flags_opts=fo, mode='local',
                                clients=[dict(script=[('send', p) for p in pieces] + [('wait_idle',), ('close',)])],
                                origins=origins, dns=DNS, kinds='', horizon=6000,
                                features={'role': role, 'sequence': 'Gx%d' % n, 'n_requests': n, 'packing': cls,
                                          'origins_differ': False, 'has_body': False, 'connection_header': 'none',
                                          '_exps': [b[1] for b in built], '_bound': 0}))
    # responses to pipelined requests need not arrive one per segment: both in ONE upstream segment, and in two
    # segments that are cut a few bytes before / after the end of the first response
    for role in ('forward', 'reverse'):
        for seq in (('G', 'G'), ('G', 'P'), ('P', 'G', 'G')):
            for co in (0, 3, -2):
                if role == 'forward':
                    fa, fo = ['--threadless'], {}
                    origins = {ADDR['a']: (lambda co=co: HttpOrigin([], respond=stamp_response('a'), coalesce=co))}
                else:
                    fa, fo = ['--threadless', '--enable-reverse-proxy'], {'plugins': [rev_plugin()]}
                    origins = {ADDR['u1']: (lambda co=co: HttpOrigin([], respond=stamp_response('u1'), coalesce=co))}
                built = [mkreq(role, sy, i) for i, sy in enumerate(seq)]
                out.append(Scenario('%s/%s/all_in_one/responses-coalesced%+d' % (role, ''.join(seq), co), fa, flags_opts=fo, mode='local',
                                    clients=[dict(script=[('send', b''.join(b[0] for b in built)), ('wait_idle',), ('close',)])],
                                    origins=origins, dns=DNS, kinds='AR' if tier == 'quick' else 'ARE', horizon=600,
                                    features={'role': role, 'sequence': ''.join(seq), 'n_requests': len(seq), 'packing': 'all_in_one',
                                              'origins_differ': False, 'has_body': 'P' in seq, 'connection_header': 'none',
                                              'responses_coalesced': True, '_exps': [b[1] for b in built]}))
    # two LARGE exchanges pipelined towards an ordinary sequential origin (it writes the whole response to request 1
    # before it reads request 2) over 4 KiB kernel buffers: the proxy must keep relaying response 1 while request 2
    # is still queued for the origin -- or neither side can ever move again
    for role in ('forward', 'reverse'):
        if role == 'forward':
            fa, fo, origins = ['--threadless'], {}, {ADDR['a']: (lambda: HttpOrigin([], respond=stamp_response('a'), sequential=True))}
            tgt = lambda i: (b'http://a.test/x%d' % i, b'Host: a.test\r\n', b'/x%d' % i, 'a')      # noqa: E731
        else:
            fa, fo = ['--threadless', '--enable-reverse-proxy'], {'plugins': [rev_plugin()]}
            origins = {ADDR['u1']: (lambda: HttpOrigin([], respond=stamp_response('u1'), sequential=True))}
            tgt = lambda i: (b'/r1/x%d' % i, b'Host: front\r\n', b'/p1', 'u1')      # noqa: E731
        reqs, exps = [], []
        for i in range(2):
            body = bytes((i * 7 + k) % 251 for k in range(30000))
            t, hh, ep, eo = tgt(i)
            reqs.append(b'POST %s HTTP/1.1\r\n%sContent-Length: %d\r\n\r\n' % (t, hh, len(body)) + body)
            exps.append({'origin': eo, 'method': b'POST', 'path': ep, 'body': body})
        for cls, pieces in (('all_in_one', [reqs[0] + reqs[1]]), ('per_request_pipelined', reqs)):
            out.append(Scenario('%s/PPbig/%s/sequential-origin' % (role, cls), fa, flags_opts=fo, mode='local',
                                clients=[dict(script=[('send', p) for p in pieces] + [('wait_idle',), ('close',)])],
                                origins=origins, dns=DNS, kinds='', horizon=6000,
                                features={'role': role, 'sequence': 'PPbig', 'n_requests': 2, 'packing': cls,
                                          'origins_differ': False, 'has_body': True, 'connection_header': 'none',
                                          'sequential_origin': True, '_exps': exps, '_bound': 0, '_sockbuf': 4096}))
    return out


def check(w):
    f = w.scn.features
    exps = f['_exps']
    out = []
    if w.died or w.run_exc:
        return [{'symptom': 'executor_died', 'features': {}, 'detail': w.run_exc}]
    c = w.clients[0]
    rx = bytes(c.rx)
    res, rest = oracles.parse_responses(rx, [e['method'] for e in exps], eof=False)
    good = [r for r in res if r['ok']]
    bodies = [r['body'] for r in good]
    want = []
    for e in exps:
        if f['role'] == 'web':
            want.append(b'%s|%s|%s|%s' % (e['origin'].encode(), e['method'], e['path'], e['body']))
        else:
            want.append(b'%s|%s|%s|%s' % (e['origin'].encode(), e['method'], e['path'], e['body']))
    detail = {'got_bodies': bodies, 'want_bodies': want, 'rx_len': len(rx), 'client_events': c.events[-3:]}
    if res and not res[-1]['ok'] and res[-1]['error']:
        out.append({'symptom': 'invalid_response_stream', 'features': {}, 'detail': dict(detail, h11=res[-1]['error'])})
    elif len(bodies) < len(want):
        # which request went unanswered?
        out.append({'symptom': 'missing_response', 'features': {'answered': len(bodies)}, 'detail': detail})
    elif rest:
        out.append({'symptom': 'extra_bytes_after_last_response', 'features': {}, 'detail': dict(detail, rest=rest[:80])})
    if bodies != want[:len(bodies)]:
        # classify
        sym = 'wrong_response'
        for g, wv in zip(bodies, want):
            if g != wv:
                if g.split(b'|')[0] != wv.split(b'|')[0]:
                    sym = 'response_from_wrong_origin'
                elif g.split(b'|')[3:] != wv.split(b'|')[3:]:
                    sym = 'request_body_not_forwarded_intact'
                else:
                    sym = 'wrong_or_reordered_response'
                break
        out.append({'symptom': sym, 'features': {}, 'detail': detail})
    # origin side: each origin saw exactly the requests addressed to it, in order
    if f['role'] != 'web':
        seen = {}
        for o in w.origin_conns:
            oid = [k for k, v in ADDR.items() if v == o.addr][0]
            for r in getattr(o, 'requests', []):
                seen.setdefault(oid, []).append((r['method'], r['target'], r['body'], r['complete']))
        wanted = {}
        for e in exps:
            if e['origin'] != 'lit':      # answered by the plugin itself: no origin sees it
                wanted.setdefault(e['origin'], []).append((e['method'], e['path'], e['body'], True))
        if seen != wanted and not out:
            out.append({'symptom': 'origin_request_log_mismatch', 'features': {},
                        'detail': {'seen': seen, 'wanted': wanted}})
    return out


def run(tier):
    scns = scenarios(tier)
    bound = 1 if tier == 'quick' else 2
    return netcheck.run(PROP, tier, scns, check, bound, None)


def replay(path):
    return netcheck.replay(path, scenarios('thorough'), check)
