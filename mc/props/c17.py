"""C17 -- threaded, local-threadless and remote-threadless modes behave identically.

Part 1 (netmc, differential): every conversation of a corpus drawn from the other checks (all
proxy roles, error paths, persistent connections, a full-size transfer) is explored in each of the
three modes under every schedule with <= d deviations; the SETS of observable outcomes (client
stream + terminal event, each upstream's stream + terminal event) must be equal across modes.
Part 2 (thrmc): all interleavings of two delegating acceptor threads and the remote executor's
receive path over a real multiprocessing pipe: every (address, descriptor) pair arrives intact.
"""
import os
import copy
import socket
from .. import common, netmc, thrmc, plugins
from ..netmc import Scenario, HttpOrigin, RawOrigin
from . import c01, c04, c07, c12

PROP = 'C17'
MODES = ('local', 'remote', 'threaded')
_BASES = []
_BOUND = 1


def remode(scn, mode):
    s = copy.copy(scn)
    s.mode = mode
    s.flags_args = [('--threaded' if (a == '--threadless' and mode == 'threaded') else a) for a in scn.flags_args]
    s.name = '%s@%s' % (scn.name, mode)
    s.features = dict(scn.features)
    return s


def corpus(tier):
    """Base scenarios (mode-neutral, single client)."""
    out = []
    q = tier == 'quick'

    def take(lst, pred, limit):
        n = 0
        for s in lst:
            if pred(s):
                out.append(s)
                n += 1
                if n >= limit:
                    break

    t1 = c01.tunnel_scenarios('quick')
    take(t1, lambda s: s.features['flags'] == 'scaled' and s.features['c2u'] and s.features['u2c'], 6 if q else 30)
    take(t1, lambda s: s.features['flags'] == 'default', 4 if q else 20)
    h1 = c01.http_scenarios('quick')
    seen = set()

    def one_per_response(s):
        k = (s.features['response'], s.features['flags'])
        if k in seen:
            return False
        seen.add(k)
        return True
    take(h1, one_per_response, 40)
    if not q:
        take(c01.big_scenarios('quick'), lambda s: True, 1)
    # persistent connections, three roles
    c4 = c04.scenarios('quick')
    take(c4, lambda s: s.features['n_requests'] == 2 and not s.features['origins_differ']
         and s.features['packing'] in ('per_request_wait', 'all_in_one', 'per_request_pipelined'), 40 if q else 200)
    # reverse proxy switching upstreams between requests of one connection (client waits for each response;
    # the pipelined variants are the recorded C04 finding and would compare broken behaviour with itself)
    take(c4, lambda s: s.features['role'] == 'reverse' and s.features['origins_differ']
         and s.features['packing'] == 'per_request_wait' and s.features.get('connection_header', 'none') == 'none', 12 if q else 60)
    take(c12.scenarios('quick'), lambda s: s.features['table'] == 'followup_kinds' and not s.features['rewrite'], 8 if q else 19)
    # endings where the proxy closes after producing output (errors, static, relay+close, early response)
    c7 = [s for s in c07.scenarios('quick') if s.mode == 'local']
    take(c7, lambda s: s.features.get('_bound') is None, 60)
    # reverse proxy routing
    take(c12.scenarios('quick'), lambda s: s.features['request'] in ('GET', 'POST') and not s.features['rewrite'], 30 if q else 120)
    # work initialisation failure behind the TLS front (client botches the handshake)
    from . import c05
    for sc in c05.tls_front_scenarios('quick'):
        if sc.mode == 'local':
            sc.clients = sc.clients[:1]
            sc.kinds = ''
            out.append(sc)
    # concurrent clients on one worker: a keep-alive connection that switches / re-creates upstreams next to
    # another client that opens its upstream at several relative offsets, plus a third connection afterwards
    nb = [sc for sc in c05.neighbour_scenarios('quick') if sc.mode == 'local']
    take(nb, lambda sc: sc.name.split('@')[-1] in (('3', '8', '9') if q else ('2', '3', '5', '7', '8', '9', '10', '12')), 18 if q else 96)
    # an idle connection beside a busy one (--timeout 1, busy iterations priced): the idle client comes back after
    # three seconds -- every mode must have reaped it by then
    half = b'GET http://h.test/late HTTP/1.1\r\nHost: h.te'
    rest = b'st\r\n\r\n'
    con = b'CONNECT t.test:443 HTTP/1.1\r\nHost: t.test:443\r\n\r\n'
    ack = b'HTTP/1.1 200 Connection established\r\n\r\n'
    for nm, first in (('idle-first', True), ('busy-first', False)):
        idle = dict(script=[('send', half), ('sleep', 3.0), ('send', rest), ('wait_idle',)], start_turn=0 if first else 1)
        busy = dict(script=[('send', con), ('wait_recv', len(ack) + 5)] + [('send', b'x')] * 400 + [('wait_eof',)],
                    start_turn=1 if first else 0)
        out.append(Scenario('timed/idle-beside-busy/%s' % nm, ['--threadless', '--timeout', '1'], mode='local',
                            clients=[idle, busy] if first else [busy, idle],
                            origins={('10.0.0.1', 80): lambda: HttpOrigin([], respond=lambda c, k, r: [b'HTTP/1.1 200 OK\r\nContent-Length: 2\r\n\r\nok']),
                                     ('10.0.0.2', 443): lambda: RawOrigin(greeting=[b'hello'])},
                            dns={'h.test': '10.0.0.1', 't.test': '10.0.0.2'}, kinds='', horizon=6000, min_time=7.5,
                            features={'role': 'timed_neighbour', '_dt_busy': 0.01, '_bound': 0}))
    # the upstream connection pool switch: whatever a mode makes of it, the conversation's outcome is the same
    pool = []
    n_before = len(out)
    take(c4, lambda s: s.features['role'] == 'forward' and s.features['n_requests'] == 2 and not s.features['origins_differ']
         and s.features['packing'] in ('per_request_wait', 'all_in_one') and s.features.get('connection_header', 'none') == 'none', 4 if q else 16)
    seen.clear()
    take(h1, lambda s: s.features['flags'] == 'default' and one_per_response(s), 4 if q else 12)
    take(t1, lambda s: s.features['flags'] == 'default' and s.features['c2u'] and s.features['u2c'], 2 if q else 6)
    for s in out[n_before:]:
        s2 = copy.copy(s)
        s2.name = s.name + '/conn-pool'
        s2.flags_args = list(s.flags_args) + ['--enable-conn-pool']
        s2.features = dict(s.features, conn_pool=True)
        pool.append(s2)
    del out[n_before:]
    out.extend(pool)
    # de-duplicate by name, make mode-neutral
    uniq = {}
    for s in out:
        s2 = copy.copy(s)
        s2.features = {k: v for k, v in s.features.items() if not k.startswith('_') or k in ('_sockbuf', '_dt_busy')}
        s2.features['origin_check'] = s.name.split('/')[0]
        s2.kinds = ('ARS' if 'D' not in s.kinds else 'D') if s.features.get('role') != 'tls_front' else 'A'
        if s.features.get('role') == 'neighbour':
            s2.kinds = 'AE'
        if s.features.get('role') == 'timed_neighbour':
            s2.kinds = ''
            s2.features['_bound'] = 0
        if s.features.get('class') == 'big' or 'big' in s.name.split('/'):
            # the full-size transfer has ~300 alternatives per execution and each execution moves 200 KiB:
            # d <= 2 on it is C01's job (one mode); the three-mode differential keeps it at d <= 1
            s2.features['_bound'] = 1
        uniq.setdefault(s.name, s2)
    return list(uniq.values())


def observe(w):
    cl = []
    for c in w.clients:
        term = 'closed' if (c.rst or c.eof) else 'open'
        cl.append((bytes(c.rx), term))
    og = {}
    for o in w.origin_conns:
        term = 'closed' if (o.rst or o.eof) else 'open'
        og.setdefault(o.addr, []).append((bytes(o.rx), term))
    return (tuple(cl), tuple(sorted((a, tuple(v)) for a, v in og.items())), bool(w.died))


def summarize(obs):
    cl, og, died = obs
    return {'clients': [(len(b), b[:60], t) for b, t in cl],
            'origins': [(a, [(len(b), b[:60], t) for b, t in v]) for a, v in og], 'died': died}


def _unit(i):
    base = _BASES[i]
    res = {}
    stats = {}
    # thread-per-connection mode is driven one connection per execution (connections share nothing there);
    # conversations with concurrent clients compare the two multiplexing modes
    modes = MODES if len(base.clients) == 1 else MODES[:2]
    bound = base.features.get('_bound', _BOUND)
    if bound >= 2:
        # d <= 2 costs ~A^2/2 executions per mode (A = alternatives along the default execution): conversations
        # with more than 120 alternatives stay at d <= 1 in this three-mode differential (their d <= 2
        # exploration in one mode is C01 / C04 / C07's)
        w0 = netmc.execute(remode(base, 'local'), ())
        if sum(p.n - 1 for p in w0.points) > 120:
            bound = 1
    multi = len(base.clients) > 1
    for mode in modes:
        scn = remode(base, mode)
        outcomes = {}

        def chk(w, outcomes=outcomes):
            o = observe(w)
            if o not in outcomes:
                outcomes[o] = netmc.strip(w.choices)
            return []
        st, _ = netmc.explore(scn, bound, chk)
        res[mode] = outcomes
        stats[mode] = (st.executions, st.turns, len(st.traces), st.no_quiescence)
    if multi:
        # thread-per-connection mode: the connections share nothing, so each one is run ALONE (default schedule) and
        # the observations are merged; the merged outcome must be one the multiplexing modes can show as well
        cl, og, died = [], {}, False
        ex = turns = 0
        for c in base.clients:
            one = remode(base, 'threaded')
            one.clients = [dict(c, start_turn=0)]
            one.name = '%s/alone-c%d' % (one.name, base.clients.index(c))
            w1 = netmc.execute(one, ())
            ex += 1
            turns += w1.turn
            o1 = observe(w1)
            cl += list(o1[0])
            for a, v in o1[1]:
                og.setdefault(a, []).extend(v)
            died = died or o1[2]
        merged = (tuple(cl), tuple(sorted((a, tuple(sorted(v))) for a, v in og.items())), died)
        stats['threaded'] = (ex, turns, 1, 0)

        def norm(o):
            return (o[0], tuple(sorted((a, tuple(sorted(v))) for a, v in o[1])), o[2])
        if merged not in {norm(o) for o in res['local']}:
            lo = sorted(res['local'].keys(), key=repr)[0]
            res_v = {'mode': 'threaded', 'only_in_threaded': [(summarize(merged), [])],
                     'only_in_local': [(summarize(lo), res['local'][lo])]}
        else:
            res_v = None
    viol = []
    if multi and res_v:
        viol.append(res_v)
    ref = set(res['local'].keys())
    for mode in modes[1:]:
        cur = set(res[mode].keys())
        if cur != ref:
            only_here = sorted(cur - ref, key=repr)[:1]
            only_ref = sorted(ref - cur, key=repr)[:1]
            viol.append({'mode': mode,
                         'only_in_' + mode: [(summarize(o), res[mode][o]) for o in only_here],
                         'only_in_local': [(summarize(o), res['local'][o]) for o in only_ref]})
    return {'i': i, 'name': base.name, 'stats': stats, 'viol': viol, 'bound': bound, 'n_outcomes': {m: len(res[m]) for m in modes}}


# ------------------------------------------------------------------ part 2: thrmc

def thr_build(unix_path):
    def build(s):
        import multiprocessing
        import proxy.core.work.delegate as D
        import proxy.core.work.fd.remote as R
        from multiprocessing.reduction import send_handle as real_send, recv_handle as real_recv
        from proxy.core.work.fd.remote import RemoteFdExecutor
        a, b = multiprocessing.Pipe()
        lock = thrmc.Lock(s)
        ctx = {'expected': [], 'received': [], 'pipes': (a, b), 'socks': []}

        class QSend:
            def send(self, obj):
                s.point('queue.send')
                a.send(obj)

            def fileno(self):
                return a.fileno()

        class QRecv:
            def recv(self):
                s.point('queue.recv', enabled=lambda: b.poll())
                return b.recv()

            def fileno(self):
                return b.fileno()

            def close(self):
                pass

        def sh(conn, handle, pid):
            s.point('send_handle')
            return real_send(a, handle, pid)

        def rh(conn):
            s.point('recv_handle', enabled=lambda: b.poll())
            return real_recv(b)
        D.send_handle = sh
        R.recv_handle = rh
        ctx['restore'] = (D, real_send, R, real_recv)

        class Conn:
            def __init__(self, sock):
                self.sock = sock

            def fileno(self):
                return self.sock.fileno()

            def close(self):
                self.sock.close()       # thread-local effect: not a scheduling point

        flags = netmc.make_flags(['--threadless'] + (['--unix-socket-path', unix_path] if unix_path else []))
        for i in range(2):
            x, y = socket.socketpair()
            ctx['socks'] += [x, y]
            addr = ('127.0.0.1', 40000 + i)
            ino = os.fstat(x.fileno()).st_ino
            ctx['expected'].append((None if unix_path else addr, ino))
            s.spawn('acceptor%d' % i, (lambda x=x, addr=addr: D.delegate_work_to_pool(
                os.getpid(), QSend(), lock, Conn(x), addr, flags.unix_socket_path)))
        ex = RemoteFdExecutor(iid='1', work_queue=QRecv(), flags=flags, event_queue=None)

        def work(fileno, addr, conn):
            ctx['received'].append((addr, os.fstat(fileno).st_ino))
            os.close(fileno)
        ex.work = work

        def receiver():
            ex.receive_from_work_queue()
            ex.receive_from_work_queue()
        s.spawn('executor', receiver)
        return ctx
    return build


def thr_check(s, ctx, errs, dead):
    D, real_send, R, real_recv = ctx['restore']
    D.send_handle = real_send
    R.recv_handle = real_recv
    out = []
    if dead:
        out.append({'symptom': 'deadlock', 'detail': dead})
    for name, e in errs:
        out.append({'symptom': 'exception_in_' + name.rstrip('01'), 'detail': '%s: %s' % (type(e).__name__, e)})
    if not out and sorted(ctx['received'], key=repr) != sorted(ctx['expected'], key=repr):
        out.append({'symptom': 'address_descriptor_pairing_broken',
                    'detail': {'received': ctx['received'], 'expected': ctx['expected']}})
    for x in ctx['socks']:
        try:
            x.close()
        except OSError:
            pass
    for p in ctx['pipes']:
        p.close()
    return out


def run(tier):
    global _BASES, _BOUND
    netmc.install()
    rep = common.Report(PROP, tier)
    _BASES = corpus(tier)
    _BOUND = 1 if tier == 'quick' else 2
    for s in _BASES:
        for m in MODES:
            r = remode(s, m)
            netmc.make_flags(r.flags_args, **r.flags_opts)
    multi = 0
    for r in common.pmap(_unit, range(len(_BASES))):
        for m, (ex, turns, traces, noq) in r['stats'].items():
            rep.add(traces_validated_against_impl=ex, transitions=turns, states=traces)
        if max(r['n_outcomes'].values()) > 1:
            multi += 1
        rep.add(**{'conversations_explored_at_d%d' % r['bound']: 1})
        base = _BASES[r['i']]
        if r['i'] % 9 == 0:
            rep.sample({'conversation': r['name'], 'distinct_outcomes_per_mode': r['n_outcomes']})
        for v in r['viol']:
            feats = {k: x for k, x in base.features.items() if not k.startswith('_')}
            feats.update({'part': 'differential', 'mode': v['mode'], 'symptom': 'outcome_set_differs_from_local_mode'})
            rep.violation(feats, {'scenario': r['name'], 'difference': v})
    rep.add(conversations=len(_BASES), modes=len(MODES), deviation_bound=_BOUND,
            conversations_with_schedule_dependent_outcome=multi,
            rule='part 1: conversations x 3 modes x all schedules with <= d deviations (kinds A,R,S); the set of observable '
                 'outcomes per mode must be equal; part 2: all interleavings of 2 delegating threads + the executor receive '
                 'path at lock/queue/descriptor-passing points, with and without a unix listening socket')
    # part 2
    for unix_path in (None, '/tmp/verif-c17.sock'):
        st, viols = thrmc.explore(thr_build(unix_path), thr_check)
        rep.add(thread_interleavings=st['executions'], thread_scheduling_decisions=st['decisions'],
                traces_validated_against_impl=st['executions'], states=st['distinct_traces'],
                transitions=st['decisions'])
        seen = set()
        for choices, v, trace in viols:
            if v['symptom'] in seen:
                continue
            seen.add(v['symptom'])
            rep.violation({'part': 'descriptor_handoff', 'unix_socket': bool(unix_path), 'symptom': v['symptom']},
                          {'thread_choices': choices, 'trace': trace, 'detail': v['detail']})
    rep.sample({'thread_interleaving': 'acceptor0:lock.acquire acceptor0:queue.send executor:queue.recv ...'})
    # part 3 (configuration lattice, live processes): the dispatch from acceptors to workers is part of a mode;
    # every (acceptors, workers) shape x mode is started for real, six clients one after the other get the same
    # answers in every mode
    from .. import cfgmc
    shapes = [(1, 1), (2, 1), (1, 2), (2, 2), (3, 2)] if tier == 'quick' else [(a, w2) for a in (1, 2, 3, 4) for w2 in (1, 2, 3)]
    pts = [{'mode': m, 'workers': w2, 'acceptors': a, 'probes': 6, 'hostname': '127.0.0.1', 'hostnames': [], 'port': 0, 'ports': [],
            'unix': False, 'files': False, 'hashseed': 0} for (a, w2) in shapes for m in ('threaded', 'local', 'remote')]

    def judge3(pt, r):
        if 'harness_error' in r:
            return [('harness_error', r)]
        if 'exception' in r:
            return [('start_or_shutdown_raised', {'exception': r['exception']})]
        ans = sorted((k.split('#')[1] if '#' in k else '0', tuple(v)) for k, v in r.get('probes_up', {}).items())
        if [a[1] for a in ans] != [('answered', 'HTTP/1.1 400 BAD REQUEST')] * 6:      # origin-form request to a pure proxy
            return [('clients_not_answered_as_in_the_other_modes', {'answers': ans})]
        return []
    cst = {}
    n3 = 0
    for pt, r, verdicts in cfgmc.run_judged('mc.c19point', pts, judge3, timeout=120, stats=cst):
        n3 += 1
        for sym, detail in verdicts:
            rep.violation({'part': 'live_dispatch', 'mode': pt['mode'], 'acceptors': pt['acceptors'], 'workers': pt['workers'],
                           'symptom': sym}, {'point': pt, 'detail': detail})
    rep.add(live_points=n3, states=n3, transitions=n3 * 6, traces_validated_against_impl=n3,
            points_rerun_for_confirmation=cst.get('points_rerun_for_confirmation', 0),
            points_not_reproduced=cst.get('points_not_reproduced', 0))
    return rep.finish()


def replay(path):
    import json
    body = json.load(open(path))
    netmc.install()
    if body['features'].get('part') == 'descriptor_handoff':
        s = thrmc.Sched(body['replay']['thread_choices'])
        ctx = thr_build('/tmp/verif-c17.sock' if body['features']['unix_socket'] else None)(s)
        try:
            errs, dead = s.run(), None
        except thrmc.Deadlock as e:
            errs, dead = [], str(e)
        print(s.trace)
        print(thr_check(s, ctx, errs, dead))
        return 0
    name = body['replay']['scenario']
    base = [b for b in corpus('thorough') + corpus('quick') if b.name == name][0]
    for mode in MODES:
        outs = {}

        def chk(w):
            outs.setdefault(observe(w), netmc.strip(w.choices))
            return []
        netmc.explore(remode(base, mode), 1, chk)
        print(mode, len(outs), 'outcome(s)')
        for o, ch in outs.items():
            print('   ', ch, summarize(o))
    return 0
