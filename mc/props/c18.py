"""C18 -- event bus delivers each event to every current subscriber exactly once, in order (seqmc).

Histories over {subscribe(s), unsubscribe(s), unsubscribe(unknown), publish, stall(s), break(s)}.
Real EventQueue methods enqueue, the real EventDispatcher.run_once() delivers; channels are real
multiprocessing pipes and the dispatcher holds its own duplicated handle, as after the pickling a
multiprocessing.Queue applies.  A list-based reference model predicts every channel's log."""
import os
import queue
import multiprocessing
from multiprocessing import connection
from .. import common, seqmc

PROP = 'C18'


class Fifo(queue.Queue):
    """Stands in for the multiprocessing.Queue: FIFO, get(timeout) raises queue.Empty, and a
    connection travelling through it arrives as a *duplicate* handle."""

    def put(self, ev, *a, **k):
        p = ev.get('event_payload')
        if isinstance(p, dict) and isinstance(p.get('conn'), connection.Connection):
            ev = dict(ev)
            ev['event_payload'] = dict(p, conn=connection.Connection(os.dup(p['conn'].fileno())))
        return super().put(ev, *a, **k)


class Sub:
    def __init__(self):
        self.rx, self.tx = multiprocessing.Pipe()
        self.log = []
        self.stalled = False
        self.broken = False

    def drain(self):
        if self.broken or self.stalled:
            return
        while self.rx.poll():
            try:
                self.log.append(self.rx.recv())
            except EOFError:
                self.log.append({'event_name': 'EOF'})
                break

    def close(self):
        for c in (self.rx, self.tx):
            try:
                c.close()
            except OSError:
                pass


def build_factory(nsubs, auto=False):
    common.bind_repo()
    from proxy.core.event import EventQueue, EventDispatcher, eventNames
    import threading

    def short(ev):
        n = ev['event_name']
        if n == eventNames.SUBSCRIBED:
            return 'SUBSCRIBED'
        if n == eventNames.UNSUBSCRIBED:
            return 'UNSUBSCRIBED'
        if n == 'EOF':
            return 'EOF'
        return ('EV', ev.get('event_payload', {}).get('n'))

    def build(hist):
        q = Fifo()
        eq = EventQueue(q)
        disp = EventDispatcher(threading.Event(), eq)
        subs = {}           # id -> current Sub
        old = []            # replaced / finished channels (must stay silent)
        model = {}          # id -> dict(status, expect list)
        viol = []
        npub = 0
        allsubs = []
        qlog = []           # abstract content of the queue BEFORE the final drain
        def run_one():
            try:
                disp.run_once()
                return True
            except Exception as e:  # noqa
                viol.append({'symptom': 'dispatcher_raised', 'detail': '%s: %s' % (type(e).__name__, e)})
                return False

        ok = True
        for step, op in enumerate(hist):
            kind = op[0]
            if kind == 'sub':
                s = op[1]
                if s in subs:
                    old.append(subs[s])
                subs[s] = Sub()
                allsubs.append(subs[s])
                model[s] = {'status': 'subscribed', 'expect': ['SUBSCRIBED']}
                eq.subscribe(s, subs[s].tx)
                qlog.append(('S', s))
            elif kind == 'unsub':
                s = op[1]
                eq.unsubscribe(s)
                qlog.append(('U', s))
                if s in model and model[s]['status'] == 'subscribed':
                    if not subs[s].broken:
                        model[s]['expect'].append('UNSUBSCRIBED')
                    model[s]['status'] = 'unsubscribed'
            elif kind == 'pub':
                eq.publish(request_id='r', event_name=1000, event_payload={'n': npub}, publisher_id='t')
                qlog.append(('P',))
                for s, m in model.items():
                    if m['status'] == 'subscribed' and not subs[s].broken:
                        m['expect'].append(('EV', npub))
                npub += 1
            elif kind == 'stall':
                s = op[1]
                if s in subs:
                    subs[s].stalled = True
            elif kind == 'break':
                s = op[1]
                if s in subs and not subs[s].broken:
                    subs[s].drain()
                    subs[s].broken = True
                    subs[s].close()
            if auto and ok:
                # automatic mode: the dispatcher handles everything queued right after every operation
                while not q.empty():
                    qlog.pop(0)
                    ok = run_one()
                    if not ok:
                        break
                if not ok:
                    break
                continue
            elif kind == 'run':
                # the dispatcher handles ONE queued event now (the others stay queued)
                if not q.empty():
                    qlog.pop(0)
                    ok = run_one()
                    if not ok:
                        break
        # Judge in a quiescent state: deliver whatever is still queued (FIFO).  Successor histories
        # are rebuilt from scratch, so this final drain is not part of the explored state.
        while ok and not q.empty():
            ok = run_one()
        before_old = [0 for _o in old]
        for s, sb in subs.items():
            sb.drain()
        for o in old:
            if not o.broken and not o.stalled:
                o.drain()
        if ok:
            for s, sb in subs.items():
                if sb.broken or sb.stalled:
                    continue
                got = [short(e) for e in sb.log]
                want = model[s]['expect']
                if got != want:
                    sym = 'event_lost' if len(got) < len(want) and got == want[:len(got)] else (
                        'event_duplicated_or_extra' if len(got) > len(want) and got[:len(want)] == want
                        else 'event_order_or_content_wrong')
                    viol.append({'symptom': sym, 'detail': {'subscriber': s, 'got': got, 'want': want}})
        # canonical state: what can influence the future
        key = []
        for s in sorted(set(list(model) + list(disp.subscribers))):
            sb = subs.get(s)
            key.append((s, model.get(s, {}).get('status'), bool(sb and sb.stalled), bool(sb and sb.broken),
                        bool(sb and sb.stalled and not sb.broken and sb.rx.poll()), s in disp.subscribers))
        # every other attribute of the dispatcher, generically (a refactoring that adds hidden state --
        # e.g. a remembered list of broken ids -- must not be merged away)
        extra = tuple(sorted((k, repr(v)) for k, v in vars(disp).items()
                             if k not in ('shutdown', 'event_queue', 'subscribers')))
        key = (tuple(key), len(old) > 0, tuple(qlog), extra)
        for sb in allsubs:
            sb.close()
        for c in list(disp.subscribers.values()):
            try:
                c.close()
            except OSError:
                pass
        return key, viol, None
    return build


def alphabet(nsubs, auto=False):
    ops = [('pub',), ('unsub', 'ghost')] + ([] if auto else [('run',)])
    for i in range(nsubs):
        s = 's%d' % i
        ops += [('sub', s), ('unsub', s), ('stall', s), ('break', s)]
    return ops


def run(tier):
    rep = common.Report(PROP, tier)
    cfgs = [(2, 5), (3, 4)] if tier == 'quick' else [(2, 7), (3, 5)]
    # (subscribers, depth, automatic dispatch): explicit dispatch explores what is still queued when a
    # channel breaks; automatic dispatch reaches longer histories (evict, re-subscribe, publish again)
    cfgs = [(n, d, False) for n, d in cfgs] + ([(2, 7, True), (3, 5, True)] if tier == 'quick' else [(2, 9, True), (3, 7, True)])
    for nsubs, depth, auto in cfgs:
        r = seqmc.bfs(alphabet(nsubs, auto), build_factory(nsubs, auto), depth)
        rep.add(states=r['states'], transitions=r['transitions'], traces_validated_against_impl=r['transitions'])
        rep.add(**{'depth_%dsubs_%s' % (nsubs, 'auto' if auto else 'manual'): depth})
        seen = set()
        for hist, v in r['violations']:
            feats = {'symptom': v['symptom'], 'has_break': any(o[0] == 'break' for o in hist),
                     'has_stall': any(o[0] == 'stall' for o in hist),
                     'resubscribe': len([o for o in hist if o[0] == 'sub']) > len(set(o for o in hist if o[0] == 'sub')),
                     'last_op': hist[-1][0] if hist else None}
            k = tuple(sorted(feats.items()))
            if k in seen:
                continue
            seen.add(k)
            rep.violation(feats, {'history': [list(o) for o in hist], 'nsubs': nsubs, 'auto': auto, 'detail': v['detail']})
    rep.add(rule='BFS over all histories up to the stated depth over {publish, unsubscribe(unknown)} + per subscriber '
                 '{subscribe, unsubscribe, stall (stop reading), break (close its ends)}; canonical-state merging on '
                 '(per-subscriber status, stalled, broken, unread data pending, known to the dispatcher)')
    rep.sample({'history': [['sub', 's0'], ['pub'], ['stall', 's0'], ['pub'], ['break', 's0'], ['pub']]})
    rep.assumptions.append('ordering between different producer processes is defined by the OS queue and not explored')
    return rep.finish()


def replay(path):
    import json
    body = json.load(open(path))
    hist = tuple(tuple(o) for o in body['replay']['history'])
    key, viol, _ = build_factory(body['replay']['nsubs'], body['replay'].get('auto', False))(hist)
    print('history:', hist)
    print('violations:', viol)
    return 1 if viol else 0
