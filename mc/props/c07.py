"""C07 -- queued output is fully delivered before the proxy closes a connection (netmc)."""
import os
from .. import netmc, netcheck, oracles, plugins
from ..netmc import Scenario, HttpOrigin, RawOrigin
from .c01 import SCALED, stamp, pkname

PROP = 'C07'
GET = b'GET http://h.test/r HTTP/1.1\r\nHost: h.test\r\n\r\n'
_REF = {}
PROMPT_TURNS = 4


def static_dir():
    d = os.path.join(netmc.scratch_dir(), 'static7')
    if not os.path.isdir(d):
        os.makedirs(d)
        for name, data in (('empty.txt', b''), ('one.txt', b'x'), ('small.txt', b'hello world, hello!\n'),
                           ('mid.bin', stamp(70000, 3)), ('big.bin', stamp(200 * 1024, 5))):
            with open(os.path.join(d, name), 'wb') as f:
                f.write(data)
    return d


def scenarios(tier):
    out = []
    sd = static_dir()
    modes = ['local', 'remote', 'threaded']

    def mflag(m):
        return ['--threaded'] if m == 'threaded' else ['--threadless']

    for mode in modes:
        for fname, fl in (('scaled', SCALED), ('default', [])):
            base = mflag(mode) + fl
            wait = [('wait_eof',)]
            # proxy-generated error responses
            errs = [
                ('400', base, b'FOO\r\n\r\n', {}, {}),
                ('400-unknown-scheme', base, b'GET ftp://h.test/ HTTP/1.1\r\n\r\n', {}, {}),
                ('404-web', base + ['--enable-web-server'], b'GET /nope HTTP/1.1\r\nHost: x\r\n\r\n', {}, {}),
                ('407', base + ['--basic-auth', 'u:p'], GET, {}, {}),
                ('502-refused', base, GET, {'h.test': '10.0.0.1'}, {}),
                ('502-dns', base, GET, {}, {}),
            ]
            for en, fa, req, dns, net in errs:
                out.append(Scenario('%s/%s/err-%s' % (mode, fname, en), fa, mode=mode,
                                    clients=[dict(script=[('send', req)] + wait)], dns=dns, net=net,
                                    kinds='ARS', horizon=4000,
                                    features={'role': 'error', 'mode': mode, 'flags': fname, 'case': en,
                                              '_validate': 'h11'}))
            # static files (one queued piece, many flushes)
            files = ['empty.txt', 'one.txt', 'small.txt'] + (['mid.bin'] if fname == 'default' else [])
            if tier == 'thorough' and fname == 'default':
                files.append('big.bin')
            for fn in files:
                for mcl in ('20', '100000000'):
                    big = fn.endswith('.bin')
                    out.append(Scenario(
                        '%s/%s/static-%s-mcl%s' % (mode, fname, fn, mcl),
                        base + ['--enable-static-server', '--static-server-dir', sd, '--min-compression-length', mcl],
                        mode=mode, clients=[dict(script=[('send', b'GET /%s HTTP/1.1\r\nHost: x\r\n\r\n' % fn.encode())] + wait,
                                                 read_limit=(30000 if big else None))],
                        kinds='RS' if big else 'ARS', horizon=20000,
                        features={'role': 'static', 'mode': mode, 'flags': fname, 'case': fn, '_validate': 'h11',
                                  '_sockbuf': 4096 if big else None, '_bound': 1 if big else None}))
            # relayed response then upstream close (many queued pieces)
            body = b'line1\r\n\r\nline2-' + stamp(24, 7)
            resp = b'HTTP/1.0 200 OK\r\nServer: x\r\n\r\n' + body
            pks = [[resp], [resp[:30], resp[30:]], [resp[:10], resp[10:40], resp[40:]]]
            for pk in pks:
                out.append(Scenario(
                    '%s/%s/relay-close-%s' % (mode, fname, pkname(pk)), base, mode=mode,
                    clients=[dict(script=[('send', GET)] + wait)],
                    origins={('10.0.0.1', 80): (lambda pk=pk: HttpOrigin([pk], then={0: 'close'}))},
                    dns={'h.test': '10.0.0.1'}, kinds='ARS', horizon=4000,
                    features={'role': 'relay_then_upstream_close', 'mode': mode, 'flags': fname,
                              'case': 'close_delimited', '_expect': resp}))
            # response with content-length, upstream closes right after it
            resp2 = b'HTTP/1.1 200 OK\r\nContent-Length: 12\r\nConnection: close\r\n\r\nhello, world'
            out.append(Scenario(
                '%s/%s/relay-cl-close' % (mode, fname), base, mode=mode,
                clients=[dict(script=[('send', GET)] + wait)],
                origins={('10.0.0.1', 80): (lambda: HttpOrigin([[resp2]], then={0: 'close'}))},
                dns={'h.test': '10.0.0.1'}, kinds='ARS', horizon=4000,
                features={'role': 'relay_then_upstream_close', 'mode': mode, 'flags': fname, 'case': 'cl',
                          '_expect': resp2}))
            # the client half-closes (shutdown(SHUT_WR)) right after its request and keeps reading:
            # whatever the proxy produced for it must still arrive in full
            hc = [
                ('halfclose-web-route', base + ['--enable-web-server'], {'plugins': [plugins.web_stamp()]},
                 b'GET /w/' + b'p' * 40 + b' HTTP/1.1\r\nHost: x\r\n\r\n'),
                ('halfclose-static', base + ['--enable-static-server', '--static-server-dir', sd,
                                             '--min-compression-length', '100000000'], {},
                 b'GET /small.txt HTTP/1.1\r\nHost: x\r\n\r\n'),
                ('halfclose-400', base, {}, b'FOO\r\n\r\n'),
                ('halfclose-404', base + ['--enable-web-server'], {}, b'GET /nope HTTP/1.1\r\nHost: x\r\n\r\n'),
            ]
            for hn, fa2, fo2, req in hc:
                out.append(Scenario('%s/%s/%s' % (mode, fname, hn), fa2, flags_opts=fo2, mode=mode,
                                    clients=[dict(script=[('send', req), ('shutdown_wr',)] + wait)],
                                    kinds='ARS', horizon=4000,
                                    features={'role': 'half_closed_client', 'mode': mode, 'flags': fname, 'case': hn,
                                              '_validate': 'h11'}))
            # early response: upstream answers after the request head and closes while the
            # client is still sending the body -> the proxy's next upstream write fails (EPIPE)
            head = b'POST http://h.test/u HTTP/1.1\r\nHost: h.test\r\nContent-Length: 8\r\n\r\n'
            early = b'HTTP/1.1 413 Too Large\r\nContent-Length: 3\r\nConnection: close\r\n\r\nbig'
            fwd_head_len = len(head) - len(b'http://h.test') + len(b'Via: 1.1 x\r\n')
            out.append(Scenario(
                '%s/%s/early-response-upstream-close' % (mode, fname), base, mode=mode,
                clients=[dict(script=[('send', head), ('wait_idle',), ('send', b'abcd'), ('send', b'efgh')] + wait)],
                origins={('10.0.0.1', 80): (lambda: RawOrigin(after={20: [early]}, finally_='close'))},
                dns={'h.test': '10.0.0.1'}, kinds='ARS', horizon=4000,
                features={'role': 'relay_then_upstream_close', 'mode': mode, 'flags': fname,
                          'case': 'early_response', '_expect': 'received_from_upstream'}))
            # the same relays through the REVERSE proxy (its upstream side is a different class:
            # TcpUpstreamConnectionHandler), and a large close-delimited relay in both roles whose tail is
            # still queued for a slow client when the upstream's end-of-stream is read
            rvreq = b'GET /rv HTTP/1.1\r\nHost: front\r\n\r\n'
            rvflags = base + ['--enable-reverse-proxy']
            rvopts = {'plugins': [plugins.reverse([(r'/rv$', [b'http://up.test/p'])], name='VerifRevC07')]}
            bigresp = b'HTTP/1.0 200 OK\r\nServer: x\r\n\r\n' + stamp(120000, 9)
            for role, fa3, fo3, req, addr, dns3 in (
                    ('reverse', rvflags, rvopts, rvreq, ('10.0.0.3', 80), {'up.test': '10.0.0.3'}),
                    ('forward', base, {}, GET, ('10.0.0.1', 80), {'h.test': '10.0.0.1'})):
                cases = [('big-close', [bigresp], True)]
                if role == 'reverse':
                    cases += [('close-delimited', [resp[:30], resp[30:]], False), ('cl-close', [resp2], False)]
                for cn, pk, big in cases:
                    if big and fname == 'scaled':
                        continue
                    out.append(Scenario(
                        '%s/%s/%s-relay-%s' % (mode, fname, role, cn), fa3, flags_opts=fo3, mode=mode,
                        clients=[dict(script=[('send', req)] + wait, read_limit=(30000 if big else None))],
                        origins={addr: (lambda pk=pk: HttpOrigin([pk], then={0: 'close'}))}, dns=dns3,
                        kinds='RS' if big else 'ARS', horizon=20000,
                        features={'role': 'relay_then_upstream_close', 'mode': mode, 'flags': fname,
                                  'case': '%s_%s' % (role, cn), '_expect': b''.join(pk),
                                  '_sockbuf': 4096 if big else None, '_bound': 1 if big else None}))
            # a follow-up request that fails (its upstream refuses / does not resolve, or it names no route) while
            # the response to the previous one is still queued for a slow client: the proxy ends the connection,
            # and everything it had already read from the first upstream must still arrive
            if fname == 'default':
                rv2 = {'plugins': [plugins.reverse([(r'/rv$', [b'http://up.test/p']), (r'/dead$', [b'http://dead.test/p']),
                                                    (r'/nodns$', [b'http://nodns.test/p'])], name='VerifRevC07b')]}
                # (a follow-up naming NO route gets its 404 queued between the relayed bytes: an ordering question
                # between pipelined responses, which is C04's subject, not a loss of output)
                for fn, path in (('refused', b'/dead'), ('dnsfail', b'/nodns')):
                    out.append(Scenario(
                        '%s/%s/reverse-followup-%s-while-output-queued' % (mode, fname, fn), rvflags, flags_opts=rv2, mode=mode,
                        clients=[dict(script=[('send', rvreq), ('wait_recv', 2000),
                                              ('send', b'GET %s HTTP/1.1\r\nHost: front\r\n\r\n' % path)] + wait, read_limit=30000)],
                        origins={('10.0.0.3', 80): (lambda: HttpOrigin([[b'HTTP/1.1 200 OK\r\nContent-Length: 120000\r\n\r\n' + stamp(120000, 11)]]))},
                        dns={'up.test': '10.0.0.3', 'dead.test': '10.0.0.4'}, kinds='RS', horizon=20000,
                        features={'role': 'relay_then_upstream_close', 'mode': mode, 'flags': fname,
                                  'case': 'reverse_followup_' + fn, '_expect': 'received_from_upstream', '_expect_prefix_only': fn == 'noroute',
                                  '_sockbuf': 4096, '_bound': 1}))
    # a reader that stalls for LONGER than the idle timeout with output still queued, then resumes: the idle
    # reaper must not end the connection, every queued byte must still arrive (virtual clock, --timeout 1; the loop
    # may be spinning on the upstream's end-of-stream meanwhile, so busy iterations are priced at 10 ms)
    for mode in modes:
        base = mflag(mode) + ['--timeout', '1']
        big = b'HTTP/1.0 200 OK\r\nServer: x\r\n\r\n' + stamp(200000, 13)
        for stall in (1.5, 3.2):
            out.append(Scenario(
                '%s/default/relay-reader-stalls-%.1fs-past-idle-timeout' % (mode, stall), base, mode=mode,
                clients=[dict(script=[('send', GET), ('wait_recv', 1000), ('stop_reading',), ('sleep', stall), ('start_reading',),
                                      ('wait_eof',)], read_limit=30000)],
                origins={('10.0.0.1', 80): (lambda big=big: HttpOrigin([[big]], then={0: 'close'}))},
                dns={'h.test': '10.0.0.1'}, kinds='', horizon=20000, min_time=stall + 3.0,
                features={'role': 'relay_then_upstream_close', 'mode': mode, 'flags': 'default', 'case': 'stalled_reader_past_idle_timeout',
                          '_expect': big, '_sockbuf': 4096, '_bound': 0, '_dt_busy': 0.01}))
        out.append(Scenario(
            '%s/default/static-reader-stalls-past-idle-timeout' % mode,
            base + ['--enable-static-server', '--static-server-dir', sd, '--min-compression-length', '100000000'], mode=mode,
            clients=[dict(script=[('send', b'GET /big.bin HTTP/1.1\r\nHost: x\r\n\r\n'), ('wait_recv', 1000), ('stop_reading',),
                                  ('sleep', 2.5), ('start_reading',), ('wait_eof',)], read_limit=30000)],
            kinds='', horizon=20000, min_time=5.5,
            features={'role': 'static', 'mode': mode, 'flags': 'default', 'case': 'stalled_reader_past_idle_timeout', '_validate': 'h11',
                      '_sockbuf': 4096, '_bound': 0, '_dt_busy': 0.01}))
    for s in out:
        if s.features.get('_bound') is None:
            s.features.pop('_bound', None)
        if s.features.get('_sockbuf') is None:
            s.features.pop('_sockbuf', None)
    return out


def norm(data):
    """Normal form that is insensitive to the gzip member header (it embeds wall-clock mtime)."""
    r = oracles.parse_response(data)
    if not r['ok']:
        return ('raw', bytes(data))
    body = r['body']
    if any(n.lower() == b'content-encoding' and v == b'gzip' for n, v in r['headers']):
        import gzip
        try:
            body = (b'gunzipped', len(body), gzip.decompress(body))
        except Exception:   # noqa
            pass
    return ('http', r['status'], tuple(r['headers']), body, r['trailing'])


def reference(scn):
    if scn.name not in _REF:
        w = netmc.execute(scn, ())
        _REF[scn.name] = bytes(w.clients[0].rx)
    return _REF[scn.name]


def check(w):
    f = w.scn.features
    out = []
    if w.died or w.run_exc:
        return [{'symptom': 'executor_died', 'features': {}, 'detail': w.run_exc}]
    c = w.clients[0]
    got = bytes(c.rx)
    exp = f.get('_expect')
    if exp == 'received_from_upstream' or f.get('role') == 'relay_then_upstream_close':
        # everything the proxy has read from the upstream must reach the client
        n = sum(d for (_t, a, op, d) in w.trace if a == 'u0' and op == 'sut_recv')
        exp = bytes(w.origin_conns[0].tx[:n]) if w.origin_conns else b''
    if exp is None:
        exp = reference(w.scn)
        if not w.deviations():
            r = oracles.parse_response(got)
            if not r['ok'] or r['trailing']:
                out.append({'symptom': 'reference_output_not_a_valid_response', 'features': {},
                            'detail': {'h11': r['error'], 'got': got[:200]}})
    same = (got == exp) or (f.get('role') == 'static' and norm(got) == norm(exp))
    if not same and f.get('_expect_prefix_only') and got.startswith(exp):
        # the proxy's own error response for the failed follow-up may follow the relayed bytes
        r2 = oracles.parse_response(got[len(exp):])
        same = bool(r2['ok'] and not r2['trailing'])
    if not same:
        sym = 'output_truncated' if exp.startswith(got) else 'output_corrupt'
        out.append({'symptom': sym, 'features': {},
                    'detail': {'got_len': len(got), 'want_len': len(exp), 'tail': got[-24:], 'events': c.events[-4:]}})
    if not c.eof:
        out.append({'symptom': 'no_end_of_stream', 'features': {}, 'detail': {'got_len': len(got), 'events': c.events[-4:]}})
    elif c.rst and not same:
        out.append({'symptom': 'reset_before_all_output', 'features': {}, 'detail': c.events[-4:]})
    # promptness: the close follows the last accepted byte within a few loop iterations
    last_send = None
    close_turn = None
    for (turn, actor, op, detail) in w.trace:
        if actor == c.name and op == 'sut_send' and detail[1] > 0:
            last_send = turn
        if actor == c.name and op == 'sut_close' and close_turn is None:
            close_turn = turn
    if same and last_send is not None and close_turn is not None and close_turn - last_send > PROMPT_TURNS:
        out.append({'symptom': 'close_not_prompt', 'features': {},
                    'detail': {'last_send_turn': last_send, 'close_turn': close_turn}})
    if w.no_quiescence and not out:
        out.append({'symptom': 'no_quiescence', 'features': {}, 'detail': None})
    return out


def run(tier):
    scns = scenarios(tier)
    bound = 1 if tier == 'quick' else 2
    return netcheck.run(PROP, tier, scns, check, bound, None)


def replay(path):
    return netcheck.replay(path, scenarios('thorough'), check)
