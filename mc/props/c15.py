"""C15 -- HTTP message and chunked codecs round-trip and agree with a reference (small-scope
exhaustive laws on the real builders / parsers; h11 and a 15-line reference decoder as judges)."""
import gzip
import itertools
from .. import common, httpgen, oracles

PROP = 'C15'
CRLF = b'\r\n'


def ref_dechunk(wire):
    """Reference chunked decoder (RFC 7230 4.1): returns (body, bytes consumed)."""
    pos = 0
    body = b''
    while True:
        eol = wire.index(CRLF, pos)
        size = int(wire[pos:eol].split(b';', 1)[0].strip(), 16)
        pos = eol + 2
        if size == 0:
            break
        body += wire[pos:pos + size]
        assert wire[pos + size:pos + size + 2] == CRLF
        pos += size + 2
    while True:                         # trailer section
        eol = wire.index(CRLF, pos)
        line = wire[pos:eol]
        pos = eol + 2
        if line == b'':
            return body, pos


def run(tier):
    common.bind_repo()
    from proxy.http.parser import HttpParser, ChunkParser, httpParserTypes, chunkParserStates
    from proxy.common.utils import build_http_request, build_http_response
    rep = common.Report(PROP, tier)
    thorough = tier == 'thorough'
    n = 0
    seen = set()

    def bad(law, sym, case, detail, **feats):
        f = dict(feats, law=law, symptom=sym)
        k = tuple(sorted(f.items()))
        if k in seen:
            return
        seen.add(k)
        rep.violation(f, {'case': case, 'detail': detail})

    bodies = [None, b'', b'a', b'abc', bytes(range(256)), b'0\r\n\r\n', b'x' * (128 * 1024 + 1)]
    hmaps = [{}, {b'Host': b'h'}, {b'Host': b'h', b'X-A': b'b c'}, {b'x-lower': b'v', b'X-Empty': b''}]
    # ---- law 1: parse(build(x)) == x, requests
    methods = [b'GET', b'POST', b'PUT', b'DELETE', b'OPTIONS', b'CONNECT', b'PATCH', b'HEAD']
    targets = [b'/', b'/a/b?x=1', b'http://h/', b'http://h:8080/p?q', b'h:443', b'*']
    versions = [b'HTTP/1.1', b'HTTP/1.0']
    for m, t, v, hm, body in itertools.product(methods, targets, versions, hmaps, bodies):
        if (m == b'CONNECT') != (t == b'h:443'):
            continue
        if not thorough and body is not None and len(body) > 1000 and (m, t) != (b'POST', b'/'):
            continue
        n += 1
        case = {'method': m, 'target': t, 'version': v, 'headers': hm, 'body_len': None if body is None else len(body)}
        try:
            raw = build_http_request(m, t, v, headers=dict(hm), body=body, no_ua=True)
            p = HttpParser.request(raw)
        except Exception as e:  # noqa
            bad('parse(build(request))', 'raised', case, '%s: %s' % (type(e).__name__, e))
            continue
        if not p.is_complete:
            bad('parse(build(request))', 'built_request_does_not_parse_complete', case, raw[:120])
            continue
        exp_h = {k.lower(): (k, v2) for k, v2 in hm.items()}
        got_h = {k: v2 for k, v2 in (p.headers or {}).items() if k != b'content-length'}
        if (p.method, p.version) != (m, v) or got_h != exp_h or (p.body or b'') != (body or b''):
            bad('parse(build(request))', 'fields_changed', case,
                {'method': p.method, 'version': p.version, 'headers': got_h, 'body': (p.body or b'')[:40]})
        r, err = oracles.parse_request(raw) if m != b'CONNECT' and hm.get(b'Host') else ([{'complete': True}], None)
        if err or not r or not r[0]['complete']:
            bad('parse(build(request))', 'built_request_rejected_by_h11', case, {'h11': err, 'raw': raw[:120]})
    # ---- law 1b: responses
    codes = [200, 204, 301, 304, 400, 404, 418, 500, 599]
    reasons = [None, b'OK', b'Not Found', b"I'm a teapot"]
    for code, reason, v, hm, body in itertools.product(codes, reasons, versions, hmaps, bodies):
        if body and code in (204, 304):
            continue
        if not thorough and body is not None and len(body) > 1000 and code != 200:
            continue
        n += 1
        case = {'code': code, 'reason': reason, 'version': v, 'headers': hm, 'body_len': None if body is None else len(body)}
        try:
            raw = build_http_response(code, protocol_version=v, reason=reason, headers=dict(hm), body=body)
            p = HttpParser.response(raw)
        except Exception as e:  # noqa
            bad('parse(build(response))', 'raised', case, '%s: %s' % (type(e).__name__, e))
            continue
        got_h = {k: v2 for k, v2 in (p.headers or {}).items() if k != b'content-length'}
        exp_h = {k.lower(): (k, v2) for k, v2 in hm.items()}
        if not p.is_complete or (p.code, p.reason, p.version) != (str(code).encode(), reason, v) \
                or got_h != exp_h or (p.body or b'') != (body or b''):
            bad('parse(build(response))', 'fields_changed', case,
                {'complete': p.is_complete, 'code': p.code, 'reason': p.reason, 'headers': got_h, 'body': (p.body or b'')[:40]})
        r = oracles.parse_response(raw, b'GET', eof=False)
        if not r['ok'] or r['trailing'] or r['body'] != (body or b''):
            bad('parse(build(response))', 'built_response_rejected_by_h11', case, {'h11': r['error'], 'raw': raw[:120]})
    # ---- law 2: parse(build(parse(y))) == parse(y), and h11-valid, over the message corpus
    for m in httpgen.corpus('thorough' if thorough else 'quick'):
        if m.trailing or m.features.get('obs_fold'):
            continue        # (obsolete line folding is only part of the segmentation corpus of C03)
        n += 1
        ptype = httpParserTypes.REQUEST_PARSER if m.kind == 'request' else httpParserTypes.RESPONSE_PARSER
        case = {'message': m.raw[:200], 'class': m.features.get('class')}
        try:
            p = HttpParser(ptype)
            p.parse(memoryview(m.raw))
            # proxy-form targets (absolute / authority) are rebuilt in proxy form, origin-form ones as they are
            y2 = (p.build(for_proxy=True) if p.host else p.build()) if m.kind == 'request' else p.build_response()
            p2 = HttpParser(ptype)
            p2.parse(memoryview(y2))
        except Exception as e:  # noqa
            bad('parse(build(parse(y)))', 'raised', case, '%s: %s' % (type(e).__name__, e), klass=m.features.get('class'))
            continue

        def obs(q):
            return (q.is_complete, q.method, q.host, q.port, q.path or b'/', q.version, q.code, q.reason,
                    tuple(sorted((k, v2) for k, v2 in (q.headers or {}).items() if k != b'content-length')), q.body or b'')
        # framing headers are part of the message: the rebuilt message may gain a Content-Length only
        # when the original declared no framing at all (body-less message)
        h1 = {k: v2[1] for k, v2 in (p.headers or {}).items() if k in (b'content-length', b'transfer-encoding')}
        h2 = {k: v2[1] for k, v2 in (p2.headers or {}).items() if k in (b'content-length', b'transfer-encoding')}
        if h1 and h1 != h2:
            bad('parse(build(parse(y)))', 'framing_headers_changed', case, {'first': h1, 'second': h2, 'rebuilt': y2[:200]},
                klass=m.features.get('class'), kind=m.kind, framing_case=m.features.get('framing_case'))
        if obs(p) != obs(p2):
            bad('parse(build(parse(y)))', 'not_idempotent', case, {'first': obs(p)[1:], 'second': obs(p2)[1:], 'rebuilt': y2[:200]},
                klass=m.features.get('class'), kind=m.kind)
        if (p.body or b'') != m.body:
            bad('parse(build(parse(y)))', 'decoded_body_wrong', case, {'got': (p.body or b'')[:40], 'want': m.body[:40]},
                klass=m.features.get('class'))
        # h11 knows no coding but "chunked": for its verdict on the framing a coding LIST ending in chunked is
        # presented as plain chunked (what the list says is checked by the idempotence comparison above)
        import re as _re
        y2 = _re.sub(rb'(?i)(transfer-encoding:[ \t]*)[^\r\n,]+,[ \t]*(chunked)', rb'\1\2', y2)
        if m.kind == 'request':
            if any(n2.lower() == b'host' for n2, _v in m.headers) and m.method != b'CONNECT':
                r, err = oracles.parse_request(y2)
                if err or not r or not r[0]['complete'] or r[0]['body'] != m.body:
                    bad('parse(build(parse(y)))', 'rebuilt_message_rejected_by_h11', case, {'h11': err, 'rebuilt': y2[:200]},
                        klass=m.features.get('class'), kind=m.kind)
        else:
            r = oracles.parse_response(y2, b'GET', eof=False)
            if not r['ok'] or r['trailing'] or r['body'] != m.body:
                bad('parse(build(parse(y)))', 'rebuilt_message_rejected_by_h11', case, {'h11': r['error'], 'rebuilt': y2[:200]},
                    klass=m.features.get('class'), kind=m.kind)
    # ---- law 3: decode(to_chunks(b, k)) == b
    for ln in list(range(0, 21)) + [255, 256, 4096, 65537]:
        b = bytes((i * 13 + 1) & 0xff for i in range(ln))
        for k in list(range(1, 7)) + [16, 1024, 128 * 1024]:
            n += 1
            try:
                wire = ChunkParser.to_chunks(b, k)
                cp = ChunkParser()
                rest = cp.parse(memoryview(wire))
            except Exception as e:  # noqa
                bad('decode(to_chunks(b,k))', 'raised', {'len': ln, 'chunk_size': k}, '%s: %s' % (type(e).__name__, e))
                continue
            if cp.state != chunkParserStates.COMPLETE or cp.body != b or bytes(rest) != b'':
                bad('decode(to_chunks(b,k))', 'not_inverse', {'len': ln, 'chunk_size': k},
                    {'complete': cp.state == chunkParserStates.COMPLETE, 'body': cp.body[:40], 'rest': bytes(rest)[:20]})
            # ... and in every read layout of equal pieces (1, 2, 5, 23 bytes): a chunk's data may take many reads
            if ln <= 4096:
                for piece in (1, 2, 5, 23):
                    n += 1
                    try:
                        cp = ChunkParser()
                        rest = b''
                        for i in range(0, len(wire), piece):
                            rest = bytes(cp.parse(memoryview(rest + wire[i:i + piece])))
                            if cp.state == chunkParserStates.COMPLETE:
                                rest += wire[i + piece:]
                                break
                    except Exception as e:  # noqa
                        bad('decode(to_chunks(b,k))', 'raised_in_pieces', {'len': ln, 'chunk_size': k, 'piece': piece},
                            '%s: %s' % (type(e).__name__, e))
                        break
                    if cp.state != chunkParserStates.COMPLETE or cp.body != b or rest != b'':
                        bad('decode(to_chunks(b,k))', 'not_inverse_in_pieces', {'len': ln, 'chunk_size': k, 'piece': piece},
                            {'complete': cp.state == chunkParserStates.COMPLETE, 'body': cp.body[:40], 'rest': rest[:20]})
                        break
            try:
                rb, used = ref_dechunk(wire)
                if rb != b or used != len(wire):
                    bad('decode(to_chunks(b,k))', 'encoder_output_not_valid_chunked', {'len': ln, 'chunk_size': k}, wire[:60])
            except Exception as e:  # noqa
                bad('decode(to_chunks(b,k))', 'encoder_output_not_valid_chunked', {'len': ln, 'chunk_size': k}, repr(e))
    # ---- law 4: decoder == reference decoder on every valid chunked stream
    for (wire, body, end, trailing, feats) in httpgen.chunk_streams('thorough'):
        n += 1
        try:
            rb, used = ref_dechunk(wire)
            assert (rb, used) == (body, end)
            cp = ChunkParser()
            rest = cp.parse(memoryview(wire))
        except Exception as e:  # noqa
            bad('decoder==reference', 'raised', {'wire': wire[:80]}, '%s: %s' % (type(e).__name__, e), klass=feats['class'])
            continue
        if cp.state != chunkParserStates.COMPLETE or cp.body != rb or bytes(rest) != wire[used:]:
            bad('decoder==reference', 'disagrees_with_reference_decoder', {'wire': wire[:80]},
                {'body': cp.body[:40], 'want': rb[:40], 'rest': bytes(rest)[:20], 'want_rest': wire[used:][:20]}, klass=feats['class'])
        # ... and when the same stream arrives in two reads, cut anywhere (all cuts are C03's job; this keeps
        # the decoder/reference agreement independent of the one-piece special case)
        for cut in range(1, len(wire)):
            n += 1
            try:
                cp = ChunkParser()
                r1 = bytes(cp.parse(memoryview(wire[:cut])))
                r2 = bytes(cp.parse(memoryview(wire[cut:])))
            except Exception as e:  # noqa
                bad('decoder==reference', 'raised_on_two_reads', {'wire': wire[:80], 'cut': cut}, '%s: %s' % (type(e).__name__, e),
                    klass=feats['class'])
                break
            if cp.state != chunkParserStates.COMPLETE or cp.body != rb or (r1 + r2) != wire[used:]:
                bad('decoder==reference', 'disagrees_with_reference_decoder_on_two_reads', {'wire': wire[:80], 'cut': cut},
                    {'body': cp.body[:40], 'want': rb[:40]}, klass=feats['class'])
                break
    # ---- law 5: update_body respects framing and content-encoding
    # `history`: what happened to the parser object before update_body -- nothing / it was already serialised once
    # (an earlier plugin of the chain, a cache) / its body was already replaced once
    for chunked, enc, kind, newbody, history in itertools.product(
            (False, True), (None, b'gzip', b'br'), ('request', 'response'), (b'', b'n', b'new-body', bytes(range(256))),
            ('fresh', 'built-before', 'updated-before')):
        n += 1
        hs = [(b'Host', b'h', b'Host: h')]
        if enc:
            hs.append((b'Content-Encoding', enc, b'Content-Encoding: ' + enc))
        start = (b'POST', b'/u', b'HTTP/1.1') if kind == 'request' else (b'HTTP/1.1', b'200', b'OK')
        m = httpgen.build(kind, start, hs, 'chunked' if chunked else 'cl', b'old')
        case = {'chunked': chunked, 'content_encoding': enc, 'kind': kind, 'new_body': newbody[:20], 'history': history}
        try:
            p = HttpParser(httpParserTypes.REQUEST_PARSER if kind == 'request' else httpParserTypes.RESPONSE_PARSER)
            p.parse(memoryview(m.raw))
            if history == 'built-before':
                _ = p.build() if kind == 'request' else p.build_response()
            elif history == 'updated-before':
                p.update_body(b'an earlier replacement body, longer than the final one', b'text/plain')
                _ = p.build() if kind == 'request' else p.build_response()
            p.update_body(newbody, b'text/plain')
            y2 = p.build() if kind == 'request' else p.build_response()
        except Exception as e:  # noqa
            bad('update_body', 'raised', case, '%s: %s' % (type(e).__name__, e), chunked=chunked, enc=str(enc), kind=kind)
            continue
        if kind == 'request':
            r, err = oracles.parse_request(y2)
            ok = not err and r and r[0]['complete']
            hb = r[0]['body'] if ok else None
            hh = dict((a.lower(), b) for a, b in r[0]['headers']) if ok else {}
        else:
            r = oracles.parse_response(y2, b'GET', eof=False)
            ok = r['ok'] and not r['trailing']
            hb = r['body'] if ok else None
            hh = dict((a.lower(), b) for a, b in r['headers']) if ok else {}
        if not ok:
            bad('update_body', 'rebuilt_message_rejected_by_h11', case, y2[:200], chunked=chunked, enc=str(enc), kind=kind)
            continue
        decoded = hb
        if hh.get(b'content-encoding') == b'gzip':
            try:
                decoded = gzip.decompress(hb)
            except Exception:   # noqa
                decoded = None
        if decoded != newbody:
            bad('update_body', 'new_body_not_recoverable', case, {'wire_body': hb[:40], 'headers': sorted(hh)},
                chunked=chunked, enc=str(enc), kind=kind, empty=not newbody)
        if enc == b'br' and b'content-encoding' in hh:
            bad('update_body', 'stale_content_encoding_kept', case, sorted(hh), chunked=chunked, kind=kind)
    rep.add(states=n, transitions=n, traces_validated_against_impl=n,
            rule='law 1: parse(build(x))==x over methods x targets x versions x header maps x bodies (requests) and status codes x '
                 'reasons x ... (responses); law 2: parse(build(parse(y)))==parse(y) and h11-valid over the C03 message corpus; '
                 'law 3: decode(to_chunks(b,k))==b for |b|<=20 (+4 large) x 9 chunk sizes; law 4: decoder == reference decoder on '
                 'every valid chunked stream of the corpus (all compositions, hex forms, extensions, trailers); law 5: update_body '
                 'x {CL, chunked} x content-encoding {none, gzip, other} x {request, response}')
    rep.sample({'law': 'parse(build(request))', 'case': {'method': 'POST', 'target': 'http://h:8080/p?q', 'body_len': 256}})
    return rep.finish()


def replay(path):
    import json
    body = json.load(open(path))
    print(json.dumps(body, indent=1)[:2000])
    return 0
