"""C13 -- the static file server never serves anything outside its directory (netmc, exhaustive
path enumeration over a token alphabet against a real directory tree)."""
import os
import gzip
import itertools
from .. import netmc, netcheck, oracles
from ..netmc import Scenario

PROP = 'C13'
TOKENS = [b'a', b'b.txt', b'/', b'.', b'..', b'%2e%2e', b'%2f', b'?x', b'?../', b'root-evil', b'secret.txt']
FILES_IN = {'a/b.txt': b'INSIDE-a-b ' + b'x' * 40, 'b.txt': b'INSIDE-b', 'a/a': b'INSIDE-a-a',
            'big.bin': b'INSIDE-big ' + bytes(range(256)) * 8,
            # sizes around --min-compression-length 20, and an empty file
            # names with an "encoding" suffix: what is served is still the file, byte for byte
            'z.gz': b'INSIDE-z-gz-not-really-gzip ' + b'z' * 30, 'z.tgz': b'INSIDE-z-tgz ' + b'q' * 40, 'z.bz2': b'INSIDE-z-bz2',
            'z.txt.xz': b'INSIDE-z-xz ' + b'x' * 25, 'z.svgz': b'INSIDE-z-svgz ' + b's' * 25, 'z.br': b'INSIDE-z-br ' + b'b' * 25,
            # a file next to a "pre-compressed" namesake: /z is the file z, whatever z.gz holds (not gzip data),
            # /big.bin is big.bin whatever big.bin.gz holds (valid gzip data of OTHER content)
            'z': b'INSIDE-z-plain ' + b'p' * 30, 'big.bin.gz': __import__('gzip').compress(b'INSIDE-stale-archive ' + b'o' * 60, mtime=0),
            'a/b.txt.br': b'INSIDE-a-b-br-stale ' + b'r' * 30,
            'e.txt': b'', 't19.txt': b'INSIDE-19-' + b'y' * 9, 't20.txt': b'INSIDE-20-' + b'y' * 10, 't21.txt': b'INSIDE-21-' + b'y' * 11}
FILES_OUT = {'secret.txt': b'OUTSIDE-SECRET-SENTINEL ' + b's' * 40, 'root-evil/b.txt': b'OUTSIDE-EVIL-SENTINEL',
             'a': b'OUTSIDE-A-SENTINEL', 'b.txt': b'OUTSIDE-B-SENTINEL'}
SENTINELS = [b'OUTSIDE-SECRET-SENTINEL', b'OUTSIDE-EVIL-SENTINEL', b'OUTSIDE-A-SENTINEL', b'OUTSIDE-B-SENTINEL']


def tree():
    base = os.path.join(netmc.scratch_dir(), 'c13')
    root = os.path.join(base, 'root')
    if not os.path.isdir(root):
        for rel, data in FILES_IN.items():
            p = os.path.join(root, rel)
            os.makedirs(os.path.dirname(p), exist_ok=True)
            with open(p, 'wb') as f:
                f.write(data)
        for rel, data in FILES_OUT.items():
            p = os.path.join(base, rel)
            os.makedirs(os.path.dirname(p), exist_ok=True)
            with open(p, 'wb') as f:
                f.write(data)
    return root


def remove_dot_segments(path):
    """RFC 3986 5.2.4 on a str path."""
    out = []
    inp = path
    while inp:
        if inp.startswith('../'):
            inp = inp[3:]
        elif inp.startswith('./'):
            inp = inp[2:]
        elif inp.startswith('/./'):
            inp = inp[2:]
        elif inp == '/.':
            inp = '/'
        elif inp.startswith('/../'):
            inp = inp[3:]
            if out:
                out.pop()
        elif inp == '/..':
            inp = '/'
            if out:
                out.pop()
        elif inp in ('.', '..'):
            inp = ''
        else:
            i = inp.find('/', 1)
            if i < 0:
                seg, inp = inp, ''
            else:
                seg, inp = inp[:i], inp[i:]
            out.append(seg)
    return ''.join(out)


def escapes(path):
    """True if resolving dot segments ever climbs above the root."""
    depth = 0
    for seg in path.split('/'):
        if seg == '..':
            depth -= 1
            if depth < 0:
                return True
        elif seg not in ('', '.'):
            depth += 1
    return False


class Lazy:
    def __init__(self, tier):
        L = 4 if tier == 'quick' else 6
        toks = TOKENS if tier == 'quick' else TOKENS[:9]
        self.paths = []
        seen = set()
        for n in range(0, L + 1):
            for seq in itertools.product(toks, repeat=n):
                p = b'/' + b''.join(seq)
                if p not in seen:
                    seen.add(p)
                    self.paths.append(p)
        # hand-written spellings of traversal
        hand = []
        for p in (b'/../secret.txt', b'/a/../../secret.txt', b'/./../secret.txt', b'/a/b.txt/../../../secret.txt',
                  b'/../root-evil/b.txt', b'/..%2fsecret.txt', b'/%2e%2e/secret.txt', b'/..;/secret.txt',
                  b'/a/../b.txt', b'/a/./b.txt', b'/a//b.txt', b'/b.txt?../secret.txt', b'/../root/b.txt',
                  b'/big.bin', b'/a/b.txt', b'/a/a', b'/z', b'/big.bin.gz', b'/a/b.txt.br', b'/z.gz', b'/z.tgz', b'/z.bz2', b'/z.txt.xz', b'/z.svgz', b'/z.br', b'/e.txt', b'/t19.txt', b'/t20.txt', b'/t21.txt', b'/e.txt?x', b'/a/../t20.txt', b'/..', b'/../a', b'/../b.txt', b'/a/../../a', b'/a/../../b.txt',
                  # a query whose text walks back into the root by name must not whitewash the path before it
                  b'/../secret.txt?/../root', b'/../secret.txt?/../root/b.txt', b'/a/../../secret.txt?x/../root/a',
                  b'/../root-evil/b.txt?/../../root', b'/../secret.txt?../root', b'/../b.txt?/../root/a/b.txt',
                  b'/b.txt?/../../secret.txt', b'/a/b.txt?/../../../secret.txt'):
            if p not in seen:
                seen.add(p)
                self.paths.append(p)
            hand.append(p)
        self.mcl = ['20', '100000000']
        self.root = tree()
        # the same spellings as the SECOND request of a keep-alive connection whose first request was answered by
        # a route plugin (static serving next to web routes): confinement does not depend on the position
        self.follow = hand

    def __len__(self):
        return len(self.paths) * len(self.mcl) + len(self.follow)

    def __getitem__(self, k):
        if k >= len(self.paths) * len(self.mcl):
            from .. import plugins
            p = self.follow[k - len(self.paths) * len(self.mcl)]
            first = b'GET /w/first HTTP/1.1\r\nHost: x\r\n\r\n'
            req = b'GET ' + p + b' HTTP/1.1\r\nHost: x\r\n\r\n'
            return Scenario('followup:%s' % p.decode('latin-1'),
                            ['--threadless', '--enable-web-server', '--enable-static-server', '--static-server-dir', self.root,
                             '--min-compression-length', '20'], flags_opts={'plugins': [plugins.web_stamp()]}, mode='local',
                            clients=[dict(script=[('send', first), ('wait_idle',), ('send', req), ('wait_idle',)])], kinds='',
                            horizon=300,
                            features={'compress': True, 'has_dotdot': b'..' in p, 'has_query': b'?' in p, 'has_pct': b'%' in p,
                                      'position': 'followup_after_route', '_path': p, '_root': self.root, '_followup': True})
        p = self.paths[k // len(self.mcl)]
        mcl = self.mcl[k % len(self.mcl)]
        req = b'GET ' + p + b' HTTP/1.1\r\nHost: x\r\n\r\n'
        return Scenario('%s/mcl%s' % (p.decode('latin-1'), mcl),
                        ['--threadless', '--enable-static-server', '--static-server-dir', self.root,
                         '--min-compression-length', mcl], mode='local',
                        clients=[dict(script=[('send', req), ('wait_idle',)])], kinds='', horizon=300,
                        features={'compress': mcl == '20', 'has_dotdot': b'..' in p, 'has_query': b'?' in p,
                                  'has_pct': b'%' in p, '_path': p, '_root': self.root})

    def by_name(self, name):
        if name.startswith('followup:'):
            for j, p in enumerate(self.follow):
                if 'followup:%s' % p.decode('latin-1') == name:
                    return self[len(self.paths) * len(self.mcl) + j]
            return None
        for k in range(len(self.paths) * len(self.mcl)):
            if '%s/mcl%s' % (self.paths[k // 2].decode('latin-1'), self.mcl[k % 2]) == name:
                return self[k]


def scenarios(tier):
    return Lazy(tier)


def flagsets(lz):
    return [(['--threadless', '--enable-static-server', '--static-server-dir', lz.root,
              '--min-compression-length', m], {}) for m in lz.mcl]


def check(w):
    f = w.scn.features
    if w.died or w.run_exc:
        return [{'symptom': 'executor_died', 'features': {}, 'detail': w.run_exc}]
    c = w.clients[0]
    rx = bytes(c.rx)
    p = f['_path']
    out = []
    if f.get('_followup'):
        # judge what follows the route plugin's answer to the first request
        first_want = b'web:/w/first'
        i = rx.find(b'HTTP/1.1 ', 1)
        if first_want not in (rx if i < 0 else rx[:i]):
            return [{'symptom': 'first_request_not_answered_by_its_route', 'features': {}, 'detail': {'rx': rx[:160]}}]
        rx = b'' if i < 0 else rx[i:]
        if not rx:
            return out      # nothing at all was served for the follow-up (connection simply ended)
    detail = {'path': p, 'rx': rx[:160]}
    r = oracles.parse_response(rx, b'GET', eof=c.eof) if rx else None
    body = None
    if r and r['ok']:
        body = r['body']
        for enc in [v.strip().lower() for n, v in r['headers'] if n.lower() == b'content-encoding']:
            import bz2
            import lzma
            undo = {b'gzip': gzip.decompress, b'x-gzip': gzip.decompress, b'bzip2': bz2.decompress, b'xz': lzma.decompress,
                    b'identity': (lambda b: b)}.get(enc)
            try:
                if undo is None:
                    raise ValueError('no decoder for advertised content-encoding %r' % enc)
                body = undo(body)
            except Exception:   # noqa
                out.append({'symptom': 'advertised_gzip_does_not_decode' if enc == b'gzip' else 'advertised_content_encoding_cannot_be_undone',
                            'features': {}, 'detail': dict(detail, encoding=enc)})
    blob = rx + (body or b'')
    for s in SENTINELS:
        if s in blob:
            out.append({'symptom': 'content_from_outside_the_static_root_served', 'features': {}, 'detail': dict(detail, sentinel=s)})
            return out
    raw = p.decode('latin-1').split('?', 1)[0]
    origin_form = raw.startswith('/') and not raw.startswith('//')
    inside = not escapes(raw)
    status = r['status'] if r else None
    if status == 200:
        if not inside:
            # climbs above the root on the way: acceptable only if the path, fully resolved, names a
            # file inside the root again and exactly that file is served
            rootreal = os.path.realpath(f['_root'])
            tgt = os.path.realpath(rootreal + raw)
            want = None
            if os.path.commonpath([rootreal, tgt]) == rootreal and os.path.isfile(tgt):
                with open(tgt, 'rb') as fh:
                    want = fh.read()
            if want is None or body != want:
                out.append({'symptom': 'path_leaving_the_root_answered_200', 'features': {}, 'detail': detail})
        else:
            norm = remove_dot_segments(raw)
            fp = os.path.join(f['_root'], norm.lstrip('/'))
            try:
                with open(fp, 'rb') as fh:
                    want = fh.read()
            except OSError:
                want = None
            # RFC 3986 dot-segment removal and POSIX resolution differ when empty segments precede "..":
            # "/a//../b.txt" is /a/b.txt for the former and /b.txt for the latter.  Both stay inside the
            # root; either reading of "the file the path names" is accepted.
            rootreal = os.path.realpath(f['_root'])
            tgt = os.path.realpath(rootreal + raw)
            alt = None
            if os.path.commonpath([rootreal, tgt]) == rootreal and os.path.isfile(tgt):
                with open(tgt, 'rb') as fh:
                    alt = fh.read()
            if (want is None or body != want) and (alt is None or body != alt):
                out.append({'symptom': 'served_content_is_not_the_named_file', 'features': {},
                            'detail': dict(detail, normalised=norm, want=None if want is None else want[:40])})
    elif origin_form:
        if not (r and r['ok'] and status == 404):
            # plain existing files must be served, everything else must be a well-formed 404
            out.append({'symptom': 'neither_file_nor_404', 'features': {}, 'detail': dict(detail, status=status)})
        elif inside and '..' not in raw and '%' not in raw and not f.get('_followup'):
            # (in the follow-up position the pinned tree answers every path that names no route 404: allowed)
            norm = remove_dot_segments(raw)
            fp = os.path.join(f['_root'], norm.lstrip('/'))
            if os.path.isfile(fp) and '//' not in raw and not raw.endswith('/'):
                out.append({'symptom': 'existing_file_inside_root_not_served', 'features': {}, 'detail': detail})
    # the query never changes the chosen file: compare with the same path without query (done by construction:
    # expectations above are computed from the query-stripped path only)
    return out


def run(tier):
    lz = scenarios(tier)
    return netcheck.run(PROP, tier, lz, check, 0, None, det_every=499, flagsets=flagsets(lz),
                        rule='every request path "/"+t1..tn with n <= L (L=4 quick over 11 tokens, L=6 thorough over 9 tokens) '
                             'plus hand-written traversal spellings, x compression on/off, served by the real static server '
                             'from a real directory tree with sentinel files inside and just outside the root')


def replay(path):
    import json
    body = json.load(open(path))
    name = body['replay']['scenario']
    scn = scenarios('quick').by_name(name) or scenarios('thorough').by_name(name)
    return netcheck.replay(path, [scn], check)
