"""C08 -- with proxy authentication on, unauthenticated requests reach nothing (netmc)."""
import base64
import os
import itertools
from .. import netmc, netcheck, oracles, plugins
from ..netmc import Scenario, HttpOrigin, RawOrigin

PROP = 'C08'
OK = b'HTTP/1.1 200 OK\r\nContent-Length: 2\r\n\r\nok'
ACK = b'HTTP/1.1 200 Connection established\r\n\r\n'
REQUEST_HOOKS = {'before_upstream_connection', 'handle_client_request', 'resolve_dns', 'handle_client_data',
                 'handle_upstream_chunk', 'do_intercept'}


def b64(s):
    return base64.b64encode(s)


def header_variants(cred, tier):
    """(label, [header lines], expectation in {'accept','reject','either'})"""
    good = b64(cred)
    other = b64(b'other:' + cred.split(b':', 1)[1])
    V = [('absent', [], 'reject')]
    tokens = [
        ('exact', good, True),
        ('trunc1', good[:-1], False),
        ('ext1', good + b'A', False),
        ('wrongcase', good.swapcase(), False),
        ('otheruser', other, False),
        ('empty', b'', False),
        ('nopad', good.rstrip(b'='), good.rstrip(b'=') == good),
        ('extrapad', good + b'=', False),
        ('reencoded_user_only', b64(cred.split(b':', 1)[0]), False),
        ('prefix_of_good_in_longer', b'x' + good, False),
    ]
    schemes = [(b'Basic', True), (b'basic', True), (b'BASIC', True), (b'BaSiC', True), (b'Bearer', False),
               (b'Digest', False), (b'', False), (b'Basicx', False)]
    seps = [(b' ', 'std'), (b'  ', 'lenient'), (b'\t', 'lenient'), (b'', 'none')]
    names = [b'Proxy-Authorization', b'proxy-authorization', b'PROXY-AUTHORIZATION', b'pRoXy-AuThOrIzAtIoN']
    for (tl, tok, tok_ok), (sch, sch_ok), (sep, sepk), name in itertools.product(tokens, schemes, seps, names):
        if tier == 'quick':
            # pairwise-ish thinning: vary two dimensions at a time around the canonical form
            nondefault = (tl != 'exact') + (sch != b'Basic') + (sepk != 'std') + (name != b'Proxy-Authorization')
            if nondefault > 2:
                continue
        value = sch + sep + tok
        if sepk == 'none':
            exp = 'reject' if not (sch == b'' and False) else 'reject'
        elif tok_ok and sch_ok:
            exp = 'accept' if sepk == 'std' else 'either'
        else:
            exp = 'reject'
        if tl == 'nopad' and tok_ok is False and sch_ok and sepk != 'none':
            exp = 'either'      # same credentials after lenient base64 decoding
        V.append(('%s/%s/%s/%s' % (tl, sch.decode() or 'noscheme', sepk, name.decode()),
                  [name + b': ' + value], exp))
    std = b'Proxy-Authorization: Basic ' + good
    bad = b'Proxy-Authorization: Basic ' + other
    V += [
        ('trailing-param', [std + b' realm=x'], 'either'),
        ('leading-ows', [b'Proxy-Authorization:    Basic ' + good + b'  '], 'accept'),
        ('dup-good-bad', [std, bad], 'either'),
        ('dup-bad-good', [bad, std], 'either'),
        ('dup-good-good', [std, std], 'accept'),
        ('dup-bad-bad', [bad, bad], 'reject'),
        ('authorization-not-proxy', [b'Authorization: Basic ' + good], 'reject'),
        ('x-proxy-authorization', [b'X-Proxy-Authorization: Basic ' + good], 'reject'),
        ('good-in-other-header', [b'Cookie: Proxy-Authorization: Basic ' + good], 'reject'),
        # a client that asks for a persistent proxy connection (as browsers and curl do) is turned away like any other
        ('absent+proxy-connection-keepalive', [b'Proxy-Connection: keep-alive'], 'reject'),
        ('absent+connection-keepalive', [b'Connection: keep-alive', b'Proxy-Connection: Keep-Alive'], 'reject'),
        ('otheruser+proxy-connection-keepalive', [bad, b'Proxy-Connection: Keep-Alive'], 'reject'),
        ('exact+proxy-connection-keepalive', [std, b'Proxy-Connection: keep-alive'], 'accept'),
    ]
    return V


def requests():
    return [
        ('GET', lambda hl: b'GET http://h.test/g HTTP/1.1\r\nHost: h.test\r\n' + b''.join(h + b'\r\n' for h in hl) + b'\r\n',
         ('10.0.0.1', 80)),
        ('POST', lambda hl: b'POST http://h.test/p HTTP/1.1\r\nHost: h.test\r\n' + b''.join(h + b'\r\n' for h in hl) +
         b'Content-Length: 4\r\n\r\nbody', ('10.0.0.1', 80)),
        ('CONNECT', lambda hl: b'CONNECT h.test:443 HTTP/1.1\r\nHost: h.test:443\r\n' + b''.join(h + b'\r\n' for h in hl) + b'\r\n',
         ('10.0.0.1', 443)),
        ('HEADERS-FIRST', lambda hl: b'GET http://h.test/hf HTTP/1.1\r\n' + b''.join(h + b'\r\n' for h in hl) +
         b'Host: h.test\r\n\r\n', ('10.0.0.1', 80)),
    ]


def scenarios(tier):
    out = []
    creds = [b'u:p', b'user:pa:ss', b'a:b'] if tier == 'thorough' else [b'u:p', b'user:pa:ss']
    origins = {('10.0.0.1', 80): lambda: HttpOrigin([], respond=lambda c, k, r: [OK]),
               ('10.0.0.1', 443): lambda: RawOrigin(greeting=[b'srv'])}
    for cred in creds:
        for withrec in (False, True, 'listed'):
            # 'listed': the operator also names the auth plugin explicitly, AFTER a user plugin -- it must still
            # run ahead of every user plugin
            fo = {'plugins': [plugins.recorder('after')] + ([b'proxy.http.proxy.auth.AuthPlugin'] if withrec == 'listed' else [])} \
                if withrec else {}
            for dis in ((), ('--disable-headers', 'x-foo,accept-encoding')):
              if withrec == 'listed' and dis:
                  continue
              fa = ['--threadless', '--basic-auth', cred.decode()] + list(dis)
              for (rname, mk, addr) in requests():
                  hv = header_variants(cred, tier)
                  for (label, lines, exp) in hv:
                      if (dis or withrec == 'listed') and label not in ('absent', 'exact/Basic/std/Proxy-Authorization', 'exact/basic/std/proxy-authorization', 'exact/Basic/std/pRoXy-AuThOrIzAtIoN', 'otheruser/Basic/std/Proxy-Authorization', 'dup-good-good'):
                          continue
                      raw = mk(lines)
                      pks = [('whole', [raw])]
                      if lines:
                          i = raw.find(lines[0]) + len(lines[0]) // 2
                          pks.append(('cut_in_header', [raw[:i], raw[i:]]))
                      if tier == 'thorough' or label in ('absent', 'exact/Basic/std/Proxy-Authorization', 'dup-bad-good'):
                          pks.append(('per_byte', [raw[i:i + 1] for i in range(len(raw))]))
                      if tier == 'quick' and withrec is True and rname in ('POST', 'HEADERS-FIRST'):
                          pks = pks[:1]
                      for pname, pieces in pks:
                          # second request on the same connection, with and without the header
                          for second in ((None,) if rname == 'CONNECT' or (tier == 'quick' and pname != 'whole')
                                         else (None, 'with', 'without', 'upgrade')):
                              script = [('send', p) for p in pieces] + [('wait_idle',)]
                              if second:
                                  l2 = [b'Proxy-Authorization: Basic ' + b64(cred)] if second in ('with', 'upgrade') else []
                                  if second == 'upgrade':
                                      # a websocket handshake sent as a follow-up request takes its own code path
                                      l2 += [b'Connection: Upgrade', b'Upgrade: websocket', b'Sec-WebSocket-Key: dGhlIHNhbXBsZSBub25jZQ==',
                                             b'Sec-WebSocket-Version: 13']
                                  script += [('send', mk(l2).replace(b'/g ', b'/g2 ').replace(b'/p ', b'/p2 ')), ('wait_idle',)]
                              out.append(Scenario(
                                  '%s/%s%s/%s/%s/%s/%s' % (cred.decode(), ('rec+authlisted' if withrec == 'listed' else 'rec') if withrec else 'norec', '+dis' if dis else '', rname, label, pname, second),
                                  fa, flags_opts=fo, mode='local', clients=[dict(script=script)], origins=origins,
                                  dns={'h.test': '10.0.0.1'}, kinds='', horizon=1500,
                                  features={'method': rname, 'variant': label.split('/')[0], 'expect': exp,
                                            'recorder': bool(withrec), 'auth_plugin_listed': withrec == 'listed', 'packing': pname, 'second': str(second), 'disable_headers': bool(dis),
                                            '_cred': cred, '_label': label}))
    # TLS interception configured: whether to intercept a CONNECT is ALSO a question put to every user plugin
    # (do_intercept) -- not before the credentials have been checked
    from .. import pki
    d = pki.ensure()
    cadir = os.path.join(netmc.scratch_dir(), 'c08-certs')
    os.makedirs(cadir, exist_ok=True)
    tls = ['--ca-key-file', d + '/ca-key.pem', '--ca-cert-file', d + '/ca-cert.pem', '--ca-signing-key-file', d + '/ca-signing-key.pem',
           '--ca-cert-dir', cadir, '--ca-file', d + '/oca-cert.pem']
    mk = requests()[2][1]
    for cred in creds[:1]:
        for (label, lines, exp) in header_variants(cred, tier):
            if exp != 'reject':
                continue
            raw = mk(lines)
            for pname, pieces in (('whole', [raw]), ('cut', [raw[:len(raw) // 2], raw[len(raw) // 2:]])):
                out.append(Scenario(
                    '%s/rec+tls/CONNECT/%s/%s' % (cred.decode(), label, pname),
                    ['--threadless', '--basic-auth', cred.decode()] + tls,
                    flags_opts={'plugins': [plugins.recorder('after', {'do_intercept': ('pass', None)})]}, mode='local',
                    clients=[dict(script=[('send', p) for p in pieces] + [('wait_idle',)])], origins=origins,
                    dns={'h.test': '10.0.0.1'}, kinds='', horizon=1500,
                    features={'method': 'CONNECT', 'variant': label.split('/')[0], 'expect': exp, 'recorder': True,
                              'auth_plugin_listed': False, 'packing': pname, 'second': 'None', 'disable_headers': False,
                              'tls_interception': True, '_cred': cred, '_label': label}))
    return out


def check(w):
    f = w.scn.features
    if w.died or w.run_exc:
        return [{'symptom': 'executor_died', 'features': {}, 'detail': w.run_exc}]
    c = w.clients[0]
    rx = bytes(c.rx)
    out = []
    origin_bytes = b''.join(bytes(o.rx) for o in w.origin_conns)
    rec = getattr(w, 'rec', [])
    req_hooks = [r for r in rec if r[1] in REQUEST_HOOKS]
    served = bool(w.connect_log)
    detail = {'label': f['_label'], 'rx': rx[:200], 'connect_log': w.connect_log, 'dns_log': w.dns_log,
              'origin_rx': origin_bytes[:300], 'hooks': req_hooks[:6]}
    r = oracles.parse_response(rx, b'CONNECT' if f['method'] == 'CONNECT' else b'GET', eof=c.eof) if rx else None
    is407 = bool(r and r['status'] == 407)
    if f['expect'] == 'reject' and not is407:
        out.append({'symptom': 'unauthenticated_request_not_rejected_with_407', 'features': {}, 'detail': detail})
    if f['expect'] == 'accept' and is407:
        out.append({'symptom': 'correct_credentials_rejected', 'features': {}, 'detail': detail})
    if is407:
        if not (r['ok'] and not r['trailing']):
            out.append({'symptom': 'malformed_407', 'features': {}, 'detail': dict(detail, h11=r['error'])})
        if not c.eof:
            out.append({'symptom': 'connection_open_after_407', 'features': {}, 'detail': detail})
        if w.connect_log or w.dns_log:
            out.append({'symptom': 'upstream_contacted_without_credentials', 'features': {}, 'detail': detail})
        if origin_bytes:
            out.append({'symptom': 'request_bytes_forwarded_without_credentials', 'features': {}, 'detail': detail})
        if req_hooks:
            out.append({'symptom': 'later_plugin_hook_ran_without_credentials', 'features': {}, 'detail': detail})
    elif not served and f['expect'] != 'reject':
        out.append({'symptom': 'neither_407_nor_served', 'features': {}, 'detail': detail})
    # never forward the credentials, on the first or any later request
    if f['method'] != 'CONNECT' and b'proxy-authorization' in origin_bytes.lower():
        out.append({'symptom': 'credentials_forwarded_to_origin', 'features': {}, 'detail': detail})
    if served and f['method'] != 'CONNECT' and not is407:
        n_expected = 1 + (0 if f['second'] == 'None' else 1)
        n_seen = sum(len(getattr(o, 'requests', [])) for o in w.origin_conns)
        if n_seen != n_expected:
            out.append({'symptom': 'authenticated_request_not_forwarded', 'features': {},
                        'detail': dict(detail, seen=n_seen, expected=n_expected)})
    return out


def run(tier):
    return netcheck.run(PROP, tier, scenarios(tier), check, 0, None, det_every=101,
                        rule='configured credentials x {GET, POST, CONNECT, headers-before-Host} x Proxy-Authorization '
                             'grammar (token x scheme x separator x header-name casing, duplicates, look-alike headers) x '
                             'packings x {no plugin, recording plugin after auth} x second request with/without header; '
                             'one execution of the real executor each')


def replay(path):
    return netcheck.replay(path, scenarios('thorough'), check)
