"""C12 -- reverse proxy routes matching requests to a configured upstream, as documented (netmc)."""
import itertools
from urllib.parse import urlsplit
from .. import netmc, netcheck, oracles, plugins
from ..netmc import Scenario, HttpOrigin, CloseOnAccept

PROP = 'C12'
URLS = [b'http://u1.test', b'http://u1.test:8080', b'http://u1.test/p', b'http://u2.test:81/p/q?x=1',
        b'https://u3.test', b'https://u3.test:8443/p', b'http://[::1]:9000/v6']
DNS = {'u1.test': '10.0.2.1', 'u2.test': '10.0.2.2', 'u3.test': '10.0.2.3', '::1': '::1'}
LITERAL = b'HTTP/1.1 200 OK\r\nContent-Length: 7\r\n\r\nliteral'
BIGBODY = bytes((i * 7 + i // 251) % 256 for i in range(100000))


def stamp(oid):
    def respond(conn, k, req):
        body = b'%s|%s|%s' % (oid, req['method'], req['target'])
        return [b'HTTP/1.1 200 OK\r\nContent-Length: %d\r\nX-Origin: yes\r\n\r\n' % len(body) + body]
    return respond


def origins():
    o = {}
    for ip, port, oid in (('10.0.2.1', 80, b'u1:80'), ('10.0.2.1', 8080, b'u1:8080'), ('10.0.2.2', 81, b'u2:81'),
                          ('::1', 9000, b'v6:9000')):
        o[(ip, port)] = (lambda oid=oid: HttpOrigin([], respond=stamp(oid)))
    for port in (443, 8443):
        o[('10.0.2.3', port)] = (lambda: CloseOnAccept())
    return o


def tables(tier):
    """(name, static routes [(regex,[urls])], dynamic {regex: kind}, description for the oracle)"""
    T = []
    for i, u in enumerate(URLS):
        T.append(('s1-%d' % i, [(r'/a$', [u])], {}))
    pairs = list(itertools.permutations(range(len(URLS)), 2)) if tier == 'thorough' else [(0, 3), (2, 1), (1, 4), (3, 5)]
    for i, j in pairs:
        T.append(('s1-%d+%d' % (i, j), [(r'/a$', [URLS[i], URLS[j]])], {}))
    T.append(('s2-disjoint', [(r'/a$', [URLS[0]]), (r'/b$', [URLS[3]])], {}))
    T.append(('s2-overlap', [(r'/a', [URLS[2]]), (r'/a/b$', [URLS[3]])], {}))
    T.append(('s2-overlap-rev', [(r'/a/b$', [URLS[3]]), (r'/a', [URLS[2]])], {}))
    # prefix routes: a route regex applies at the START of the path -- a path that merely CONTAINS another
    # route's pattern further in ('/b/a', '/zzz/d/7') is not that route's
    T.append(('s2-prefix', [(r'/a', [URLS[0]]), (r'/b', [URLS[3]])], {}))
    T.append(('s2-prefix-dyn', [r'/d/(\d+)$', (r'/b', [URLS[3]])], {r'/d/(\d+)$': 'url'}))
    T.append(('dyn-url', [], {r'/d/(\d+)$': 'url'}))
    T.append(('dyn-literal', [], {r'/lit$': 'literal'}))
    T.append(('mixed', [(r'/a$', [URLS[1]])], {r'/d/(\d+)$': 'url', r'/lit$': 'literal'}))
    # overlapping dynamic and static routes of one plugin, in both orders
    T.append(('ovl-dynlit-first', [r'/lit$', (r'/l', [URLS[0]])], {r'/lit$': 'literal'}))
    T.append(('ovl-static-first', [(r'/l', [URLS[0]]), r'/lit$'], {r'/lit$': 'literal'}))
    T.append(('ovl-dynurl-first', [r'/d/(\d+)$', (r'/d/', [URLS[2]])], {r'/d/(\d+)$': 'url'}))
    T.append(('ovl-static-dynurl', [(r'/d/', [URLS[2]]), r'/d/(\d+)$'], {r'/d/(\d+)$': 'url'}))
    return T


def dyn_handler(kind):
    def h(request):
        from proxy.http import Url
        if kind == 'url':
            return Url.from_bytes(b'http://u2.test:81/dyn?id=' + request.path.rsplit(b'/', 1)[1])
        return memoryview(LITERAL)
    return h


PATHS = [b'/a', b'/a/b', b'/b', b'/zzz', b'/', b'/d/7', b'/lit', b'/a?x=1', b'/A', b'/b/a', b'/b/d/7']
REQS = [
    ('GET', lambda p: b'GET %s HTTP/1.1\r\nHost: front.test\r\nX-A: b\r\n\r\n' % p, b'GET', b''),
    ('POST', lambda p: b'POST %s HTTP/1.1\r\nHost: front.test\r\nContent-Length: 4\r\nX-A: b\r\n\r\nbody' % p, b'POST', b'body'),
    ('CHUNKED', lambda p: b'POST %s HTTP/1.1\r\nHost: front.test\r\nX-A: b\r\nTransfer-Encoding: chunked\r\n\r\n2\r\nbo\r\n2\r\ndy\r\n0\r\n\r\n' % p,
     b'POST', b'body'),
    # header names are case-insensitive: the Host field spelled as some clients / HTTP/2 front ends spell it
    ('GET-host-lower', lambda p: b'GET %s HTTP/1.1\r\nhost: front.test\r\nx-a: b\r\n\r\n' % p, b'GET', b''),
    ('GET-host-upper', lambda p: b'GET %s HTTP/1.1\r\nHOST: front.test\r\nX-A: b\r\n\r\n' % p, b'GET', b''),
    # a body far larger than one send() on the upstream socket takes (4 KiB kernel buffers)
    ('BIGPOST', lambda p: b'POST %s HTTP/1.1\r\nHost: front.test\r\nContent-Length: 100000\r\nX-A: b\r\n\r\n' % p + BIGBODY,
     b'POST', None),
    # an upgrade request is a request like any other as far as routing goes (the web server keeps a separate
    # route table per protocol: websocket upgrades are looked up in their own table)
    ('UPGRADE', lambda p: b'GET %s HTTP/1.1\r\nHost: front.test\r\nX-A: b\r\nConnection: Upgrade\r\nUpgrade: websocket\r\n'
                          b'Sec-WebSocket-Key: dGhlIHNhbXBsZSBub25jZQ==\r\nSec-WebSocket-Version: 13\r\n\r\n' % p, b'GET', b''),
]


def scenarios(tier):
    import re
    out = []
    for (tname, static, dyn) in tables(tier):
        klass = plugins.reverse(static, {k: dyn_handler(v) for k, v in dyn.items()}, name='VerifRev_' + tname.replace('-', '_').replace('+', '_'))
        for rewrite in (False, True):
            fa = ['--threadless', '--enable-reverse-proxy'] + (['--rewrite-host-header'] if rewrite else [])
            for path in PATHS:
                for (rname, mk, method, body) in REQS:
                    if tier == 'quick' and rname in ('CHUNKED', 'NOHOST', 'UPGRADE', 'GET-host-lower', 'GET-host-upper', 'BIGPOST') and not tname.startswith('s1-0') and tname not in ('mixed', 's2-disjoint', 'dyn-url'):
                        continue
                    script = [('send', mk(path)), ('wait_idle',), ('close',)]
                    matching = []
                    for ent in static:
                        if isinstance(ent, str):
                            continue
                        rx, urls = ent
                        if re.compile(rx).match(path.decode()):
                            matching.append(('static', urls))
                    for rx, kind in dyn.items():
                        if re.compile(rx).match(path.decode()):
                            matching.append((kind, None))
                    out.append(Scenario(
                        '%s/%s/%s/%s' % (tname, 'rw' if rewrite else 'norw', path.decode(), rname), fa,
                        flags_opts={'plugins': [klass]}, mode='local', clients=[dict(script=script)],
                        origins=origins(), dns=DNS, kinds='D', horizon=400,
                        features={'table': tname.split('-')[0], 'rewrite': rewrite, 'request': rname,
                                  'n_matching': len(matching), '_matching': matching, '_path': path,
                                  '_method': method, '_body': BIGBODY if body is None else body, '_bound': 2 if body is not None else 1}))
                    if body is None:
                        out[-1].features['_sockbuf'] = 4096
                        out[-1].horizon = 4000
    # follow-up request on a keep-alive connection whose route names another port of the same host
    # (and another host): the SECOND request must go to the second route's host and port
    for tname, static in (('fu-samehost', [(r'/a$', [URLS[0]]), (r'/b$', [URLS[1]])]),
                          ('fu-otherhost', [(r'/a$', [URLS[2]]), (r'/b$', [URLS[3]])])):
        klass = plugins.reverse(static, {}, name='VerifRev_' + tname.replace('-', '_'))
        for rewrite in (False, True):
            fa = ['--threadless', '--enable-reverse-proxy'] + (['--rewrite-host-header'] if rewrite else [])
            for order in (('/a', '/b'), ('/b', '/a'), ('/a', '/a')):
                script = []
                for pth in order:
                    script += [('send', REQS[0][1](pth.encode())), ('wait_idle',)]
                script += [('close',)]
                out.append(Scenario('%s/%s/%s' % (tname, 'rw' if rewrite else 'norw', '+'.join(order)), fa,
                                    flags_opts={'plugins': [klass]}, mode='local', clients=[dict(script=script)],
                                    origins=origins(), dns=DNS, kinds='', horizon=400,
                                    features={'table': 'followup', 'rewrite': rewrite, 'request': 'GET', 'n_matching': 1,
                                              '_followup': [dict(static)[r'%s$' % p][0] for p in order], '_bound': 0}))
    # follow-ups across route KINDS on one keep-alive connection: static, dynamic returning a Url,
    # dynamic returning a literal response -- every ordered pair (and triple in the thorough tier)
    kinds = {'/a': ('up', URLS[0]), '/b': ('up', URLS[1]), '/d/7': ('up', b'http://u2.test:81/dyn?id=7'), '/lit': ('literal', None)}
    klass = plugins.reverse([(r'/a$', [URLS[0]]), (r'/b$', [URLS[1]])],
                            {r'/d/(\d+)$': dyn_handler('url'), r'/lit$': dyn_handler('literal')}, name='VerifRev_fu_kinds')
    seqs = list(itertools.product(kinds, repeat=2)) + (list(itertools.product(kinds, repeat=3)) if tier == 'thorough' else
                                                       [('/a', '/lit', '/a'), ('/lit', '/a', '/lit'), ('/d/7', '/lit', '/b')])
    for rewrite in (False, True):
        fa = ['--threadless', '--enable-reverse-proxy'] + (['--rewrite-host-header'] if rewrite else [])
        for order in seqs:
            script = []
            for pth in order:
                script += [('send', REQS[0][1](pth.encode())), ('wait_idle',)]
            script += [('close',)]
            out.append(Scenario('fu-kinds/%s/%s' % ('rw' if rewrite else 'norw', '+'.join(order)), fa,
                                flags_opts={'plugins': [klass]}, mode='local', clients=[dict(script=script)],
                                origins=origins(), dns=DNS, kinds='', horizon=400,
                                features={'table': 'followup_kinds', 'rewrite': rewrite, 'request': 'GET', 'n_matching': 1,
                                          '_followup_kinds': [kinds[p] for p in order], '_bound': 0}))
    return out


def url_facts(u):
    s = urlsplit(u.decode())
    port = s.port or (443 if s.scheme == 'https' else 80)
    path = (s.path or '/') + ('?' + s.query if s.query else '')
    authority = ('[%s]' % s.hostname if ':' in s.hostname else s.hostname) + (':%d' % s.port if s.port else '')
    return s.scheme, s.hostname, port, path.encode(), authority.encode()


def check(w):
    f = w.scn.features
    if w.died or w.run_exc:
        return [{'symptom': 'executor_died', 'features': {}, 'detail': w.run_exc}]
    c = w.clients[0]
    rx = bytes(c.rx)
    out = []
    if '_followup' in f:
        want = [url_facts(u) for u in f['_followup']]
        # requests as seen by the origins, in arrival order per origin address
        seen = []
        for oc in w.origin_conns:
            for rq in getattr(oc, 'requests', []):
                seen.append((oc.addr, rq['target']))
        want_seen = [((DNS[cf[1]], cf[2]), cf[3]) for cf in want]
        if sorted(seen) != sorted(want_seen):
            out.append({'symptom': 'followup_request_not_forwarded_to_its_route_upstream', 'features': {},
                        'detail': {'seen': seen, 'want': want_seen, 'connect_log': w.connect_log}})
        res, rest = oracles.parse_responses(rx, [b'GET'] * len(want), eof=False)
        bodies = [r['body'] for r in res if r['ok']]
        if len(bodies) != len(want):
            out.append({'symptom': 'followup_request_not_answered', 'features': {}, 'detail': {'bodies': bodies}})
        return out
    if '_followup_kinds' in f:
        ks = f['_followup_kinds']
        seen = []
        for oc in w.origin_conns:
            for rq in getattr(oc, 'requests', []):
                seen.append((oc.addr, rq['target']))
        want_seen, want_bodies = [], []
        oid = {('10.0.2.1', 80): b'u1:80', ('10.0.2.1', 8080): b'u1:8080', ('10.0.2.2', 81): b'u2:81'}
        for kind, u in ks:
            if kind == 'literal':
                want_bodies.append(b'literal')
            else:
                cf = url_facts(u)
                addr = (DNS[cf[1]], cf[2])
                want_seen.append((addr, cf[3]))
                want_bodies.append(b'%s|GET|%s' % (oid[addr], cf[3]))
        if sorted(seen) != sorted(want_seen):
            out.append({'symptom': 'followup_request_not_forwarded_to_its_route_upstream', 'features': {},
                        'detail': {'seen': seen, 'want': want_seen, 'connect_log': w.connect_log}})
        res, rest = oracles.parse_responses(rx, [b'GET'] * len(ks), eof=False)
        bodies = [r['body'] for r in res if r['ok']]
        if bodies != want_bodies or rest:
            out.append({'symptom': 'followup_responses_not_one_per_request_from_its_route', 'features': {},
                        'detail': {'bodies': bodies, 'want': want_bodies, 'rest': rest[:100]}})
        return out
    matching = f['_matching']
    detail = {'connect_log': w.connect_log, 'rx': rx[:200], 'matching': matching}

    def bad(sym, **kw):
        out.append({'symptom': sym, 'features': {}, 'detail': dict(detail, **kw)})

    if not matching:
        r = oracles.parse_response(rx, b'GET', eof=c.eof)
        if not (r['ok'] and r['status'] == 404):
            bad('no_route_but_not_404', status=r['status'], h11=r['error'])
        if w.connect_log or w.dns_log:
            bad('outbound_connection_without_matching_route')
        return out
    # candidate upstream URLs (all matching routes)
    cands = []
    for kind, urls in matching:
        if kind == 'static':
            cands += [url_facts(u) for u in urls]
        elif kind == 'url':
            cands.append(url_facts(b'http://u2.test:81/dyn?id=' + f['_path'].rsplit(b'/', 1)[1]))
    literal_ok = any(kind == 'literal' for kind, _u in matching)
    if not w.connect_log:
        if literal_ok:
            if rx != LITERAL:
                bad('literal_route_response_not_relayed', got=rx[:100])
            return out
        bad('matching_route_but_no_upstream_connection')
        return out
    if len(w.connect_log) != 1:
        bad('more_than_one_outbound_connection')
    fam, addr, outcome = w.connect_log[0]
    tgt = (addr[0], addr[1])
    ok = [cf for cf in cands if (DNS[cf[1]], cf[2]) == tgt]
    if not ok:
        bad('connected_to_address_not_named_by_a_matching_route', target=tgt,
            allowed=[(DNS[cf[1]], cf[2]) for cf in cands])
        return out
    if w.dns_log and w.dns_log[0][0] not in [cf[1] for cf in ok]:
        bad('resolved_a_name_not_in_the_route', dns=w.dns_log)
    if all(cf[0] == 'https' for cf in ok):
        return out      # TLS upstream: target selection is all we can observe here
    reqs = []
    for oc in w.origin_conns:
        reqs += getattr(oc, 'requests', [])
    if len(reqs) != 1 or not reqs[0]['complete']:
        bad('upstream_did_not_receive_exactly_one_complete_request', n=len(reqs),
            origin_rx=bytes(w.origin_conns[0].rx)[:200] if w.origin_conns else None)
        return out
    r = reqs[0]
    if r['target'] not in [cf[3] for cf in ok]:
        bad('request_path_is_not_the_upstream_url_path', got=r['target'], want=[cf[3] for cf in ok])
    if r['method'] != f['_method']:
        bad('method_changed', got=r['method'])
    if r['body'] != f['_body']:
        bad('body_changed', got=r['body'])
    hd = {n.lower(): v for n, v in r['headers']}
    if f['request'] != 'NOHOST':
        want_host = [cf[4] for cf in ok] if f['rewrite'] else [b'front.test']
        if hd.get(b'host') not in want_host:
            bad('host_header_not_as_configured', got=hd.get(b'host'), want=want_host)
        if hd.get(b'x-a') != b'b':
            bad('header_lost', got=sorted(hd))
    # response relayed unmodified
    want_resp = bytes(w.origin_conns[0].tx)
    if rx != want_resp:
        bad('upstream_response_not_relayed_unmodified', got=rx[:120], want=want_resp[:120])
    return out


def run(tier):
    return netcheck.run(PROP, tier, scenarios(tier), check, 1, None, det_every=17,
                        rule='route tables (static routes with 1..2 upstream URLs from a 7-URL alphabet (names, ports, paths, https, an IPv6 literal), overlapping / disjoint '
                             'pairs, dynamic routes returning a Url or a literal response) x 11 request paths x request kinds x '
                             'Host-rewrite off/on; every outcome of random.choice is branched (kind D)')


def replay(path):
    return netcheck.replay(path, scenarios('thorough'), check)
