"""C10 -- every connection's resources are released exactly once, however it ends (netmc,
fault enumeration + census of kernel objects and executor registries at quiescence)."""
import gc
import os
from .. import netmc, netcheck
from ..netmc import Scenario, HttpOrigin
from . import c05

PROP = 'C10'


def census(w):
    """Runs inside the world at quiescence, executor still alive."""
    ex = w.executor
    gc.collect()
    now = set(os.listdir('/proc/self/fd'))
    harness = set()
    for p in list(w.clients) + list(w.origin_conns):
        if getattr(p, 'connected', True) and not p.closed:
            harness.add(str(p.sock.fileno()))
    leaked = sorted(now - w.census0 - harness, key=int)
    desc = []
    for f in leaked:
        try:
            desc.append((f, os.readlink('/proc/self/fd/' + f)))
        except OSError:
            pass
    reg = {}
    if ex is not None and hasattr(ex, 'works'):
        sel = ex.selector.get_map() if ex.selector is not None else {}
        wq = ex.work_queue_fileno()
        reg = {
            'works': sorted(ex.works.keys()),
            'registered': sorted(ex.registered_events_by_work_ids.keys()),
            'unfinished': len(ex.unfinished),
            'selector': sorted(k for k in sel.keys() if k != wq),
        }
    w.census = {'leaked_fds': desc, 'registries': reg}


def first_select_hook(w):
    if w.census0 is None:
        w.census0 = set(os.listdir('/proc/self/fd'))


def scenarios(tier):
    out = []
    for mode in ('local', 'remote'):
        fa, fo = c05.flags_for(mode)
        fa_idle = fa + ['--timeout', '1']
        for (name, role, script, origins, dns, net) in c05.adversaries(tier):
            if script[-1][0] not in ('close', 'wait_eof'):
                continue        # the client stays connected: that history is not over
            for reps in (1, 3):
                if reps == 3 and tier == 'quick' and name.startswith('fwd-trunc') and name != 'fwd-trunc-20':
                    continue
                clients = [dict(script=script, start_turn=(0 if i == 0 else 'idle')) for i in range(reps)]
                # a client that leaves while the proxy still holds bytes it accepted for an upstream that does not
                # take them: the proxy may keep trying to deliver them, and the connection is over when the idle
                # timeout says so (virtual clock, --timeout 1) -- the census is taken after that
                lingers = 'upstream-not-reading' in name
                out.append(Scenario(
                    '%s/%s/x%d' % (mode, name, reps), fa_idle if lingers else fa, flags_opts=fo, mode=mode, clients=clients,
                    origins=origins, dns=dns, net=net, kinds='AF' if reps == 1 else 'F', horizon=900,
                    min_time=4.0 * reps if lingers else None,
                    features=dict({'mode': mode, 'role': role, 'history': name, 'repetitions': reps},
                                  **({'_sockbuf': 4096} if lingers else {})),
                    setup=_setup))
        # idle timeout: the client never closes, the reaper must (virtual clock)
        idle = [
            ('idle-after-forward', [('send', b'GET http://adv.test/a HTTP/1.1\r\nHost: adv.test\r\n\r\n'),
                                    ('wait_recv', len(c05.R_A)), ('wait_eof',)]),
            ('idle-after-connect-no-bytes', [('wait_eof',)]),
            ('idle-half-request', [('send', b'GET http://adv.te'), ('wait_eof',)]),
            ('idle-tunnel', [('send', b'CONNECT adv.test:443 HTTP/1.1\r\n\r\n'), ('wait_eof',)]),
            ('idle-web', [('send', b'GET /w/x HTTP/1.1\r\nHost: x\r\n\r\n'), ('wait_eof',)]),
            ('idle-reverse', [('send', b'GET /r1 HTTP/1.1\r\nHost: x\r\n\r\n'), ('wait_eof',)]),
        ]
        og = {('10.0.0.9', 80): lambda: HttpOrigin([[c05.R_A]]),
              ('10.0.0.9', 443): lambda: netmc.RawOrigin(greeting=[b'srv']),
              ('10.0.0.8', 80): lambda: HttpOrigin([[c05.R_UP]])}
        for name, script in idle:
            out.append(Scenario(
                '%s/%s' % (mode, name), fa_idle, flags_opts=fo, mode=mode, clients=[dict(script=script)],
                origins=og, dns={'adv.test': '10.0.0.9', 'up1.test': '10.0.0.8'}, kinds='', horizon=900,
                min_time=4.0,
                features={'mode': mode, 'role': 'idle', 'history': name, 'repetitions': 1}, setup=_setup))
    # the upstream connection pool (--enable-conn-pool) has its own release / bookkeeping paths
    for mode in ('local', 'remote'):
        fa, fo = c05.flags_for(mode)
        fa_idle = fa + ['--timeout', '1']
        for (name, role, script, origins, dns, net) in c05.adversaries(tier):
            if role not in ('forward', 'tunnel') or (tier == 'quick' and name.startswith('fwd-trunc')) or \
                    script[-1][0] not in ('close', 'wait_eof'):
                continue
            for reps in (1, 3):
                clients = [dict(script=script, start_turn=(0 if i == 0 else 'idle')) for i in range(reps)]
                lingers = 'upstream-not-reading' in name
                out.append(Scenario(
                    '%s/pool/%s/x%d' % (mode, name, reps), (fa_idle if lingers else fa) + ['--enable-conn-pool'], flags_opts=fo,
                    mode=mode, clients=clients, origins=origins, dns=dns, net=net,
                    kinds='F' if reps == 1 else '', horizon=900, min_time=4.0 * reps if lingers else None,
                    features=dict({'mode': mode, 'role': role, 'history': name, 'repetitions': reps, 'conn_pool': True},
                                  **({'_sockbuf': 4096} if lingers else {})),
                    setup=_setup))
    # a plugin that turns the request down AFTER the upstream connection has been made (handle_client_request
    # rejects / drops), and one that does so before: with and without the connection pool, whatever was acquired
    # for the request is given back
    from .. import plugins as _pl
    req = b'GET http://adv.test/a HTTP/1.1\r\nHost: adv.test\r\n\r\n'
    og = {('10.0.0.9', 80): lambda: HttpOrigin([[c05.R_A]])}
    for mode in ('local', 'remote'):
        for pool in (False, True):
            for hook, act in (('handle_client_request', ('reject', (403, b'no'))), ('handle_client_request', ('drop', None)),
                              ('before_upstream_connection', ('reject', (403, b'no')))):
                klass = _pl.recorder('gate', {hook: act})
                for reps in (1, 3):
                    script = [('send', req), ('wait_idle',), ('close',)]
                    clients = [dict(script=script, start_turn=(0 if i == 0 else 'idle')) for i in range(reps)]
                    out.append(Scenario(
                        '%s/%splugin-%s-%s/x%d' % (mode, 'pool/' if pool else '', act[0], hook, reps),
                        ['--threadless'] + (['--enable-conn-pool'] if pool else []), flags_opts={'plugins': [klass]},
                        mode=mode, clients=clients, origins=og, dns={'adv.test': '10.0.0.9'}, kinds='F' if reps == 1 else '',
                        horizon=900,
                        features=dict({'mode': mode, 'role': 'forward', 'history': 'plugin-%s-in-%s' % (act[0], hook),
                                       'repetitions': reps}, **({'conn_pool': True} if pool else {})),
                        setup=_setup))
    # the shipped ProxyPoolPlugin opens its own upstream connection (to a pool endpoint) from before_upstream_connection
    for mode in ('local', 'remote'):
        netmc.install()
        from proxy.plugin import ProxyPoolPlugin
        req = b'GET http://pub.test/x HTTP/1.1\r\nHost: pub.test\r\n\r\n'
        pool_ok = {('10.0.0.5', 3128): lambda: HttpOrigin([[c05.R_A]])}
        for name, script, origins, net in (
                ('pool-endpoint-serves', [('send', req), ('wait_recv', len(c05.R_A)), ('close',)], pool_ok, {}),
                ('pool-endpoint-refuses', [('send', req), ('wait_eof',)], {}, {}),
                ('pool-endpoint-times-out', [('send', req), ('wait_eof',)], {}, {('10.0.0.5', 3128): 'timeout'}),
                ('pool-endpoint-closes-early', [('send', req), ('wait_eof',)],
                 {('10.0.0.5', 3128): lambda: netmc.RawOrigin(greeting=[], finally_='close')}, {}),
                ('pool-client-aborts', [('send', req), ('close',)], pool_ok, {})):
            for reps in (1, 3):
                clients = [dict(script=script, start_turn=(0 if i == 0 else 'idle')) for i in range(reps)]
                out.append(Scenario(
                    '%s/proxypool/%s/x%d' % (mode, name, reps), ['--threadless', '--proxy-pool', '10.0.0.5:3128'],
                    flags_opts={'plugins': [ProxyPoolPlugin]}, mode=mode, clients=clients, origins=origins,
                    dns={'pub.test': '93.184.216.34'}, net=net, kinds='AF' if reps == 1 else '', horizon=900,
                    features={'mode': mode, 'role': 'proxy_pool', 'history': name, 'repetitions': reps}, setup=_setup))
    # work initialisation failure (TLS front, client botches the handshake): nothing may stay behind
    for sc in c05.tls_front_scenarios(tier):
        sc.setup = _setup
        sc.features = {'mode': sc.mode, 'role': 'tls_front', 'history': sc.features['adversary'], 'repetitions': 3}
        out.append(sc)
    return out


def _setup(w):
    w.hooks.append(first_select_hook)
    w.at_quiescence = census


def check(w):
    out = []
    if w.died or w.run_exc:
        return [{'symptom': 'executor_died', 'features': {}, 'detail': w.run_exc}]
    cz = getattr(w, 'census', None)
    if cz is None:
        return [{'symptom': 'no_census', 'features': {}, 'detail': 'quiescence never reached (horizon)'}]
    open_clients = [c.name for c in w.clients if c.connected and not c.closed and not c.eof]
    if cz['leaked_fds'] and not open_clients:
        out.append({'symptom': 'descriptor_leak', 'features': {}, 'detail': cz['leaked_fds']})
    reg = cz['registries']
    if reg and not open_clients:
        if reg['works']:
            out.append({'symptom': 'work_not_forgotten', 'features': {}, 'detail': reg})
        elif reg['registered'] or reg['selector']:
            out.append({'symptom': 'descriptor_still_registered', 'features': {}, 'detail': reg})
        elif reg['unfinished']:
            out.append({'symptom': 'task_not_reaped', 'features': {}, 'detail': reg})
    if open_clients:
        out.append({'symptom': 'connection_never_ended', 'features': {},
                    'detail': {'clients': open_clients, 'census': cz}})
    return out


def run(tier):
    scns = scenarios(tier)
    bound = 1 if tier == 'quick' else 2
    return netcheck.run(PROP, tier, scns, check, bound, None,
                        assumptions=['a socket that is closed only by the cyclic GC counts as released '
                                     '(gc.collect() runs before the census)'])


def replay(path):
    return netcheck.replay(path, scenarios('thorough'), check)
