"""C05 -- one connection cannot take down or stall the executor serving the others (netmc,
fault enumeration).  Two or three works share ONE real executor loop."""
from .. import netmc, netcheck, plugins
from ..netmc import Scenario, HttpOrigin, RawOrigin

PROP = 'C05'
ACK = b'HTTP/1.1 200 Connection established\r\n\r\n'
CANARY_RESP = b'HTTP/1.1 200 OK\r\nContent-Length: 9\r\n\r\ncanary-ok'
R_A = b'HTTP/1.1 200 OK\r\nContent-Length: 5\r\n\r\nadv-A'
R_UP = b'HTTP/1.1 200 OK\r\nContent-Length: 6\r\n\r\nup1-ok'
ADV_ADDRS = {('10.0.0.9', 80), ('10.0.0.9', 443), ('10.0.0.8', 80), ('10.0.0.7', 80)}
_REF = {}


def canary_req(path):
    return b'GET http://h.test/%s HTTP/1.1\r\nHost: h.test\r\n\r\n' % path


def canary_script(path):
    return [('send', canary_req(path)), ('wait_recv', len(CANARY_RESP)), ('wait_idle',), ('close',)]


def flags_for(mode):
    return (['--threadless', '--enable-web-server', '--enable-reverse-proxy'],
            {'plugins': [plugins.web_stamp(), plugins.reverse([(r'/r1$', [b'http://up1.test/p1']),
                                                               (r'/r2$', [b'http://up2.test/p2']),
                                                               (r'/rs$', [b'https://ups.test/p'])], name='VerifRevC05s')]})


def adversaries(tier):
    """(name, role, script, origins, dns, net)"""
    A = []
    fwd = b'GET http://adv.test/a HTTP/1.1\r\nHost: adv.test\r\n\r\n'
    okorigin = {('10.0.0.9', 80): lambda: HttpOrigin([[R_A]])}
    dns = {'adv.test': '10.0.0.9', 'up1.test': '10.0.0.8'}
    A.append(('fwd-ok', 'forward', [('send', fwd), ('wait_recv', len(R_A)), ('close',)], okorigin, dns, {}))
    cuts = [1, 4, 20, len(fwd) - 2, len(fwd) - 1] if tier == 'quick' else range(1, len(fwd))
    for k in cuts:
        A.append(('fwd-trunc-%d' % k, 'forward', [('send', fwd[:k]), ('close',)], okorigin, dns, {}))
    A.append(('fwd-abort-after-send', 'forward', [('send', fwd), ('close',)], okorigin, dns, {}))
    A.append(('fwd-rst', 'forward', [('send', fwd), ('stop_reading',), ('wait_idle',), ('close',)], okorigin, dns, {}))
    A.append(('fwd-shutdown-wr', 'forward', [('send', fwd), ('shutdown_wr',), ('wait_eof',)], okorigin, dns, {}))
    A.append(('fwd-refused', 'forward', [('send', fwd), ('wait_eof',)], {}, dns, {('10.0.0.9', 80): 'refuse'}))
    A.append(('fwd-timeout', 'forward', [('send', fwd), ('wait_eof',)], {}, dns, {('10.0.0.9', 80): 'timeout'}))
    A.append(('fwd-unreach', 'forward', [('send', fwd), ('wait_eof',)], {}, dns, {('10.0.0.9', 80): 'unreach'}))
    A.append(('fwd-dnsfail', 'forward', [('send', fwd), ('wait_eof',)], {}, {'up1.test': '10.0.0.8'}, {}))
    A.append(('fwd-upstream-closes-on-accept', 'forward', [('send', fwd), ('wait_eof',)],
              {('10.0.0.9', 80): lambda: RawOrigin(greeting=[], finally_='close')}, dns, {}))
    A.append(('fwd-upstream-partial-close', 'forward', [('send', fwd), ('wait_eof',)],
              {('10.0.0.9', 80): lambda: RawOrigin(after={10: [R_A[:20]]}, finally_='close')}, dns, {}))
    A.append(('fwd-upstream-garbage', 'forward', [('send', fwd), ('wait_idle',), ('close',)],
              {('10.0.0.9', 80): lambda: RawOrigin(after={10: [b'\xff\xfe garbage\r\n\r\n\x00']})}, dns, {}))
    A.append(('fwd-keepalive-2', 'forward',
              [('send', fwd), ('wait_recv', len(R_A)), ('send', fwd), ('wait_recv', 2 * len(R_A)), ('close',)],
              {('10.0.0.9', 80): lambda: HttpOrigin([[R_A], [R_A]])}, dns, {}))
    malformed = [
        ('bin-garbage', b'\xff\xfe\x00\r\n\r\n'),
        ('web-nonutf8-path', b'GET /\xff\xfe HTTP/1.1\r\nHost: x\r\n\r\n'),
        ('fwd-nonutf8-path', b'GET http://adv.test/\xff HTTP/1.1\r\nHost: adv.test\r\n\r\n'),
        ('fwd-nonutf8-host', b'GET http://adv\xff.test/ HTTP/1.1\r\n\r\n'),
        ('fwd-nonutf8-ua', b'GET http://adv.test/a HTTP/1.1\r\nUser-Agent: \xff\r\n\r\n'),
        ('fwd-nonutf8-method', b'G\xffT http://adv.test/a HTTP/1.1\r\n\r\n'),
        ('huge-port', b'GET http://adv.test:99999999/ HTTP/1.1\r\n\r\n'),
        ('connect-nonnumeric-port', b'CONNECT adv.test:https HTTP/1.1\r\n\r\n'),
        ('bad-content-length', b'POST http://adv.test/ HTTP/1.1\r\nContent-Length: x\r\n\r\n'),
        ('neg-content-length', b'POST http://adv.test/ HTTP/1.1\r\nContent-Length: -5\r\n\r\nabc'),
        ('unbalanced-bracket', b'GET http://[::1/ HTTP/1.1\r\n\r\n'),
        ('bad-chunk-size', b'POST http://adv.test/ HTTP/1.1\r\nTransfer-Encoding: chunked\r\n\r\nzz\r\nab\r\n0\r\n\r\n'),
        ('two-at', b'GET http://a@b@adv.test/ HTTP/1.1\r\n\r\n'),
        ('empty-line-only', b'\r\n\r\n'),
        ('one-token', b'GET\r\n\r\n'),
        ('ftp-scheme', b'GET ftp://adv.test/ HTTP/1.1\r\n\r\n'),
        ('http09', b'GET /\r\n\r\n'),
        ('unknown-version', b'GET / HTTP/9.9\r\nHost: x\r\n\r\n'),
        ('web-nonutf8-ua', b'GET /w/x HTTP/1.1\r\nUser-Agent: \xff\xfe\r\n\r\n'),
        ('rev-nonutf8-path', b'GET /r1\xff HTTP/1.1\r\nHost: x\r\n\r\n'),
        ('neg-chunk-size', b'POST http://adv.test/ HTTP/1.1\r\nTransfer-Encoding: chunked\r\n\r\n-5\r\nabc'),
        ('dup-content-length-shrinks', b'POST http://adv.test/ HTTP/1.1\r\nContent-Length: 5\r\nContent-Length: 0\r\n\r\nabcde'),
        ('dup-content-length-negative', b'POST /w/x HTTP/1.1\r\nContent-Length: 3\r\nContent-Length: -1\r\n\r\nabc'),
    ]
    for n, raw in malformed:
        A.append(('malformed-' + n, 'malformed', [('send', raw), ('wait_idle',), ('close',)], okorigin, dns, {}))
    # tunnel
    con = b'CONNECT adv.test:443 HTTP/1.1\r\nHost: adv.test:443\r\n\r\n'
    tun = {('10.0.0.9', 443): lambda: RawOrigin(greeting=[b'srv-hello'])}
    A.append(('tunnel-ok', 'tunnel', [('send', con), ('wait_recv', len(ACK) + 9), ('send', b'cli-hello'),
                                      ('wait_idle',), ('close',)], tun, dns, {}))
    A.append(('tunnel-abort-before-ack', 'tunnel', [('send', con), ('close',)], tun, dns, {}))
    A.append(('tunnel-rst-midstream', 'tunnel', [('send', con), ('stop_reading',), ('wait_idle',), ('send', b'x'),
                                                 ('close',)], tun, dns, {}))
    A.append(('tunnel-upstream-closes', 'tunnel', [('send', con), ('wait_eof',)],
              {('10.0.0.9', 443): lambda: RawOrigin(greeting=[b'bye'], finally_='close')}, dns, {}))
    A.append(('tunnel-refused', 'tunnel', [('send', con), ('wait_eof',)], {}, dns, {}))
    # web
    A.append(('web-ok', 'web', [('send', b'GET /w/x HTTP/1.1\r\nHost: x\r\n\r\n'), ('wait_idle',), ('close',)], {}, dns, {}))
    A.append(('web-pipelined', 'web', [('send', b'GET /w/x HTTP/1.1\r\nHost: x\r\n\r\nGET /w/y HTTP/1.1\r\nHost: x\r\n\r\n'),
                                       ('wait_idle',), ('close',)], {}, dns, {}))
    A.append(('web-then-garbage', 'web', [('send', b'GET /w/x HTTP/1.1\r\nHost: x\r\n\r\n'), ('wait_idle',),
                                          ('send', b'\xff\x00garbage\r\n\r\n'), ('wait_idle',), ('close',)], {}, dns, {}))
    A.append(('web-404', 'web', [('send', b'GET /nope HTTP/1.1\r\nHost: x\r\n\r\n'), ('wait_eof',)], {}, dns, {}))
    A.append(('web-rst', 'web', [('send', b'GET /w/x HTTP/1.1\r\nHost: x\r\n\r\n'), ('stop_reading',), ('wait_idle',),
                                 ('close',)], {}, dns, {}))
    # reverse
    rev = b'GET /r1 HTTP/1.1\r\nHost: front\r\n\r\n'
    up = {('10.0.0.8', 80): lambda: HttpOrigin([[R_UP], [R_UP]])}
    A.append(('rev-ok', 'reverse', [('send', rev), ('wait_recv', len(R_UP)), ('close',)], up, dns, {}))
    A.append(('rev-keepalive-2', 'reverse', [('send', rev), ('wait_recv', len(R_UP)), ('send', rev), ('wait_idle',),
                                             ('close',)], up, dns, {}))
    A.append(('rev-refused', 'reverse', [('send', rev), ('wait_idle',), ('close',)], {}, dns, {}))
    A.append(('rev-timeout', 'reverse', [('send', rev), ('wait_idle',), ('close',)], {}, dns, {('10.0.0.8', 80): 'timeout'}))
    A.append(('rev-dnsfail', 'reverse', [('send', rev), ('wait_idle',), ('close',)], {}, {'adv.test': '10.0.0.9'}, {}))
    A.append(('rev-upstream-closes', 'reverse', [('send', rev), ('wait_idle',), ('close',)],
              {('10.0.0.8', 80): lambda: RawOrigin(after={5: [R_UP[:10]]}, finally_='close')}, dns, {}))
    A.append(('rev-client-abort', 'reverse', [('send', rev), ('close',)], up, dns, {}))
    A.append(('rev-post-body', 'reverse', [('send', b'POST /r1 HTTP/1.1\r\nHost: f\r\nContent-Length: 3\r\n\r\nabc'),
                                           ('wait_idle',), ('close',)], up, dns, {}))
    # a keep-alive connection whose life frees and re-creates upstream descriptors
    rev2 = b'GET /r2 HTTP/1.1\r\nHost: front\r\n\r\n'
    up2 = {('10.0.0.8', 80): lambda: HttpOrigin([[R_UP], [R_UP]]), ('10.0.0.7', 80): lambda: HttpOrigin([[R_UP], [R_UP]])}
    dns2 = dict(dns, **{'up2.test': '10.0.0.7'})
    A.append(('rev-switch-upstream', 'reverse', [('send', rev), ('wait_recv', len(R_UP)), ('send', rev2), ('wait_recv', 2 * len(R_UP)),
                                                 ('wait_idle',), ('close',)], up2, dns2, {}))
    A.append(('rev-switch-back', 'reverse', [('send', rev), ('wait_recv', len(R_UP)), ('send', rev2), ('wait_recv', 2 * len(R_UP)),
                                             ('send', rev), ('wait_recv', 3 * len(R_UP)), ('wait_idle',), ('close',)], up2, dns2, {}))
    A.append(('rev-switch-then-abort', 'reverse', [('send', rev), ('wait_recv', len(R_UP)), ('send', rev2), ('close',)], up2, dns2, {}))
    # ... and one whose follow-up request is routed to an upstream that refuses / times out / does not resolve
    up1only = {('10.0.0.8', 80): lambda: HttpOrigin([[R_UP], [R_UP]])}
    for nm, net2, dnsx in (('refused', {}, dns2), ('timeout', {('10.0.0.7', 80): 'timeout'}, dns2), ('dnsfail', {}, dns)):
        A.append(('rev-followup-upstream-' + nm, 'reverse', [('send', rev), ('wait_recv', len(R_UP)), ('send', rev2), ('wait_idle',),
                                                             ('close',)], up1only, dnsx, net2))
    A.append(('fwd-upstream-closes-between', 'forward', [('send', fwd), ('wait_recv', len(R_A)), ('wait_turns', 12), ('send', fwd),
                                                         ('wait_idle',), ('close',)],
              {('10.0.0.9', 80): lambda: HttpOrigin([[R_A]], then={0: 'close'})}, dns, {}))
    # an upstream that accepts and then never reads, while the adversary uploads far more than the socket
    # buffers hold: whatever the proxy does with the backlog, it must not sit in a blocking send()
    bigbody = b'u' * 65536
    stuck = lambda: RawOrigin(greeting=[], no_read=True)     # noqa: E731
    A.append(('rev-upload-upstream-not-reading', 'reverse',
              [('send', b'POST /r1 HTTP/1.1\r\nHost: f\r\nContent-Length: %d\r\n\r\n' % len(bigbody)), ('send', bigbody[:30000]),
               ('send', bigbody[30000:]), ('wait_idle',), ('close',)], {('10.0.0.8', 80): stuck}, dns, {}))
    A.append(('fwd-upload-upstream-not-reading', 'forward',
              [('send', b'POST http://adv.test/u HTTP/1.1\r\nHost: adv.test\r\nContent-Length: %d\r\n\r\n' % len(bigbody)),
               ('send', bigbody[:30000]), ('send', bigbody[30000:]), ('wait_idle',), ('close',)], {('10.0.0.9', 80): stuck}, dns, {}))
    A.append(('tunnel-upload-upstream-not-reading', 'tunnel',
              [('send', con), ('wait_recv', len(ACK)), ('send', bigbody[:30000]), ('send', bigbody[30000:]), ('wait_idle',), ('close',)],
              {('10.0.0.9', 443): stuck}, dns, {}))
    # a download the client does not read (output piles up in the proxy) ...
    bigresp = b'HTTP/1.0 200 OK\r\nServer: x\r\n\r\n' + b'D' * 120000
    bigorigin = {('10.0.0.9', 80): lambda: HttpOrigin([[bigresp]], then={0: 'close'})}
    # ... until the upstream has finished and closed; then the client reads everything: the connection must end
    A.append(('fwd-download-client-not-reading-at-first', 'forward',
              [('send', fwd), ('stop_reading',), ('wait_idle',), ('start_reading',), ('wait_eof',)], bigorigin, dns, {}))
    # ... and the work is then torn down by an error (a pipelined request with a non-numeric Content-Length) while
    # the client still does not read: tearing down must not wait for that client
    A.append(('fwd-download-client-not-reading-then-bad-request', 'forward',
              [('send', fwd), ('stop_reading',), ('wait_idle',),
               ('send', b'POST http://adv.test/x HTTP/1.1\r\nHost: adv.test\r\nContent-Length: abc\r\n\r\n'), ('wait_idle',)],
              {('10.0.0.9', 80): lambda: HttpOrigin([[b'HTTP/1.1 200 OK\r\nContent-Length: 120000\r\n\r\n' + b'D' * 120000]])}, dns, {}))
    A.append(('tunnel-download-client-not-reading-then-reset', 'tunnel',
              [('send', con), ('stop_reading',), ('wait_idle',), ('send', b'x'), ('wait_idle',), ('close',)],
              {('10.0.0.9', 443): lambda: RawOrigin(greeting=[b'T' * 120000])}, dns, {}))
    return A


def scenarios(tier):
    out = []
    for mode in ('local', 'remote'):
        fa, fo = flags_for(mode)
        for (name, role, script, origins, dns, net) in adversaries(tier):
            offsets = [0, 3, 'idle']
            for off in offsets:
                og = dict(origins)
                og[('10.0.0.1', 80)] = lambda: HttpOrigin([[CANARY_RESP]])
                d = dict(dns)
                d['h.test'] = '10.0.0.1'
                clients = [dict(script=script),
                           dict(script=canary_script(b'c'), start_turn=off),
                           dict(script=canary_script(b't'), start_turn='idle')]
                # ... and a TWIN of the adversary itself, once everything else is over and with no more faults: a
                # connection that needs whatever the adversary needed (the same canned responses, routes, upstreams)
                # must still be treated exactly as when it is alone
                twin = script[-1][0] in ('close', 'wait_eof') and off == 0
                if twin:
                    clients.append(dict(script=list(script), start_turn='idle', faults_off=True))
                out.append(Scenario(
                    '%s/%s/canary@%s' % (mode, name, off), fa, flags_opts=fo, mode=mode, clients=clients,
                    origins=og, dns=d, net=net, kinds='AF' if tier == 'quick' else 'AFOE', horizon=600,
                    features=dict({'mode': mode, 'role': role, 'adversary': name, 'canary_offset': str(off),
                                   '_fault_clients': {'c0'}, '_fault_addrs': ADV_ADDRS, '_twin': 3 if twin else None,
                                   '_twin_ref': (mode, name, script, origins, dns, net) if twin else None},
                                  **({'_sockbuf': 4096} if 'not-reading' in name else {}))))
    # an upstream that accepts the connection and then says nothing, where the proxy must speak TLS to it (reverse
    # route to an https:// upstream): the handshake is a blocking call on the one thread that serves everybody.
    # It cannot return in this single-threaded world, so the execution runs under its own short real-time guard
    # (the SUT sits in SSL_do_handshake; a guard that fires IS the observation).
    for mode in ('local', 'remote'):
        fa, fo = flags_for(mode)
        out.append(Scenario(
            '%s/rev-https-upstream-silent/canary@3' % mode, fa, flags_opts=fo, mode=mode,
            clients=[dict(script=[('send', b'GET /rs HTTP/1.1\r\nHost: f\r\n\r\n'), ('wait_eof',)]),
                     dict(script=canary_script(b'c'), start_turn=3),
                     dict(script=canary_script(b't'), start_turn='idle')],
            origins={('10.0.0.7', 443): lambda: RawOrigin(greeting=[]), ('10.0.0.1', 80): lambda: HttpOrigin([[CANARY_RESP]])},
            dns={'ups.test': '10.0.0.7', 'h.test': '10.0.0.1'}, kinds='', horizon=600,
            features={'mode': mode, 'role': 'reverse', 'adversary': 'rev-https-upstream-silent', 'canary_offset': '3',
                      '_bound': 0, '_watchdog': 5}))
    return out + tls_front_scenarios(tier) + idle_scenarios(tier) + neighbour_scenarios(tier)


def tls_front_scenarios(tier):
    """The proxy's own TLS front (--key-file/--cert-file): a client that botches the handshake makes
    work initialisation fail.  Handshakes are blocking calls, so no TLS canary can be scripted here;
    the oracle is the liveness of the executor loop while several such clients come and go."""
    from .. import pki
    key, cert = pki.ensure_front()
    out = []
    bad = [('plaintext-http', b'GET / HTTP/1.1\r\nHost: x\r\n\r\n', False),
           ('tls-looking-garbage', b'\x16\x03\x01\x00\x05hello', True),
           ('one-byte-then-eof', b'\x16', True),
           ('eof-at-once', b'', True)]
    for mode in ('local', 'remote'):
        for name, data, pre in bad:
            clients = [dict(script=[('wait_idle',), ('close',)], send_on_connect=data, preclose=pre, start_turn=t)
                       for t in (0, 0, 'idle')]
            out.append(Scenario('%s/tlsfront-%s' % (mode, name), ['--threadless', '--key-file', key, '--cert-file', cert],
                                mode=mode, clients=clients, kinds='', horizon=300,
                                features={'mode': mode, 'role': 'tls_front', 'adversary': name, 'canary_offset': 'none',
                                          '_no_canary': True}))
    return out


def neighbour_scenarios(tier):
    """Descriptor-number traffic between neighbours: the adversary is a perfectly polite keep-alive
    connection whose life merely frees and re-creates upstream sockets (reverse proxy switching
    upstreams, forward keep-alive whose upstream closes between requests) while the canary opens ITS
    upstream at every relative offset -- in particular in the very loop iteration in which a number
    is freed.  Both acceptance orders."""
    out = []
    rev1 = b'GET /r1 HTTP/1.1\r\nHost: front\r\n\r\n'
    rev2 = b'GET /r2 HTTP/1.1\r\nHost: front\r\n\r\n'
    fwd = b'GET http://adv.test/a HTTP/1.1\r\nHost: adv.test\r\n\r\n'
    advs = [
        ('rev-switch-upstream', [('send', rev1), ('wait_recv', len(R_UP)), ('send', rev2), ('wait_recv', 2 * len(R_UP)),
                                 ('wait_idle',), ('close',)]),
        ('rev-switch-back', [('send', rev1), ('wait_recv', len(R_UP)), ('send', rev2), ('wait_recv', 2 * len(R_UP)),
                             ('send', rev1), ('wait_recv', 3 * len(R_UP)), ('wait_idle',), ('close',)]),
        ('fwd-upstream-closes-between', [('send', fwd), ('wait_recv', len(R_A)), ('wait_turns', 8), ('send', fwd),
                                         ('wait_idle',), ('close',)]),
    ]
    origins = {('10.0.0.8', 80): lambda: HttpOrigin([[R_UP], [R_UP], [R_UP]]),
               ('10.0.0.7', 80): lambda: HttpOrigin([[R_UP], [R_UP], [R_UP]]),
               ('10.0.0.9', 80): lambda: HttpOrigin([[R_A]], then={0: 'close'}),
               ('10.0.0.1', 80): lambda: HttpOrigin([[CANARY_RESP]])}
    dns = {'adv.test': '10.0.0.9', 'up1.test': '10.0.0.8', 'up2.test': '10.0.0.7', 'h.test': '10.0.0.1'}
    offsets = range(1, 15) if tier == 'quick' else range(1, 22)
    for mode in ('local', 'remote'):
        fa, fo = flags_for(mode)
        for name, script in advs:
            for first in ('canary', 'adversary'):
                for k in offsets:
                    can = dict(script=[('wait_turns', k)] + canary_script(b'c'), start_turn=0 if first == 'canary' else 1)
                    adv = dict(script=script, start_turn=1 if first == 'canary' else 0)
                    clients = [can, adv] if first == 'canary' else [adv, can]
                    ci = 0 if first == 'canary' else 1
                    clients.append(dict(script=canary_script(b't'), start_turn='idle'))
                    out.append(Scenario('%s/%s/%s-first/canary-sends@%d' % (mode, name, first, k), fa, flags_opts=fo, mode=mode,
                                        clients=clients, origins=origins, dns=dns, kinds='E' if tier == 'quick' else 'AE',
                                        horizon=600,
                                        features={'mode': mode, 'role': 'neighbour', 'adversary': name,
                                                  'canary_offset': 'swept', '_canaries': [ci, 2],
                                                  '_bound': 1}))
    return out


def idle_scenarios(tier):
    """The adversary goes silent (half a request / after an exchange / never sends) and is reaped by
    the idle sweep (--timeout 1, virtual clock) while a canary is being served and before another one."""
    out = []
    fwd = b'GET http://adv.test/a HTTP/1.1\r\nHost: adv.test\r\n\r\n'
    silent = [('silent-half-request', [('send', fwd[:20]), ('wait_eof',)]),
              ('silent-after-exchange', [('send', fwd), ('wait_recv', len(R_A)), ('wait_eof',)]),
              ('silent-never-sends', [('wait_eof',)])]
    for mode in ('local', 'remote'):
        fa, fo = flags_for(mode)
        for name, script in silent:
            for two in (False, True):
                clients = [dict(script=script)]
                if two:
                    clients.append(dict(script=list(script), start_turn=1))
                n0 = len(clients)
                clients += [dict(script=canary_script(b'c'), start_turn=2),
                            dict(script=canary_script(b't'), start_turn=130)]      # after the sweep (1 s = 40 idle turns)
                out.append(Scenario('%s/%s%s' % (mode, name, '-x2' if two else ''), fa + ['--timeout', '1'], flags_opts=fo,
                                    mode=mode, clients=clients,
                                    origins={('10.0.0.9', 80): lambda: HttpOrigin([[R_A]]),
                                             ('10.0.0.1', 80): lambda: HttpOrigin([[CANARY_RESP]])},
                                    dns={'adv.test': '10.0.0.9', 'h.test': '10.0.0.1'}, kinds='', horizon=2000, min_time=4.0,
                                    features={'mode': mode, 'role': 'idle_reaped', 'adversary': name, 'canary_offset': 'timed',
                                              '_canaries': [n0, n0 + 1]}))
    return out


def transcript(w, idx):
    if idx >= len(w.clients):
        return None
    c = w.clients[idx]
    if not c.connected:
        return ('never-connected',)
    reqs = []
    for o in w.origin_conns:
        if o.addr == ('10.0.0.1', 80):
            for r in getattr(o, 'requests', []):
                reqs.append((r['method'], r['target'], r['complete']))
    return (bytes(c.rx), c.rst)


def reference(mode):
    if mode not in _REF:
        fa, fo = flags_for(mode)
        scn = Scenario('ref/' + mode, fa, flags_opts=fo, mode=mode,
                       clients=[dict(script=canary_script(b'c'))],
                       origins={('10.0.0.1', 80): lambda: HttpOrigin([[CANARY_RESP]])},
                       dns={'h.test': '10.0.0.1'}, kinds='')
        w = netmc.execute(scn, ())
        _REF[mode] = transcript(w, 0)
        assert _REF[mode][0] == CANARY_RESP, _REF[mode]
    return _REF[mode]


_TWIN = {}


def twin_reference(scn):
    mode, name, script, origins, dns, net = scn.features['_twin_ref']
    if (mode, name) not in _TWIN:
        alone = Scenario('twinref/%s/%s' % (mode, name), scn.flags_args, flags_opts=scn.flags_opts, mode=mode,
                         clients=[dict(script=list(script))], origins=origins, dns=dns, net=net, kinds='', horizon=600,
                         features={k: v for k, v in scn.features.items() if k == '_sockbuf'})
        w = netmc.execute(alone, ())
        c = w.clients[0]
        _TWIN[(mode, name)] = (bytes(c.rx), c.eof or c.rst)
    return _TWIN[(mode, name)]


def check(w):
    out = []
    if w.hung:
        # the guard fired: the one thread that serves every connection never came back from a call
        out.append({'symptom': 'event_loop_blocked_in_a_socket_call', 'features': {},
                    'detail': {'calls': [w.run_exc], 'last_io': [list(map(str, t)) for t in w.trace[-4:]]}})
        return out
    if w.died or w.run_exc:
        out.append({'symptom': 'executor_died', 'features': {}, 'detail': w.run_exc})
        return out
    if w.blocked:
        # the one thread that serves every connection of this worker sat in a blocking socket call
        out.append({'symptom': 'event_loop_blocked_in_a_socket_call', 'features': {},
                    'detail': {'calls': w.blocked[:5]}})
    if w.scn.features.get('_no_canary'):
        if any(not c.connected for c in w.clients):
            out.append({'symptom': 'later_connection_never_accepted', 'features': {}, 'detail': None})
        return out
    if w.scn.features.get('_twin') is not None and len(w.clients) > w.scn.features['_twin']:
        tw = w.clients[w.scn.features['_twin']]
        got = (bytes(tw.rx), tw.eof or tw.rst) if tw.connected else ('never-connected',)
        want = twin_reference(w.scn)
        # the reference is the twin's script run alone in the DEFAULT environment; an execution in which the
        # environment deviated on the twin itself (its own send / close postponed, its reads withheld) is another
        # client behaviour, with its own outcome -- not comparable (found by the thorough tier at d=2: a postponed
        # close lets the twin see the acknowledgement it otherwise never reads)
        own = [d for d in w.deviations() if tw.name in [str(x) for x in (d[3] if isinstance(d[3], (tuple, list)) else (d[3],))]]
        if got != want and not own:
            out.append({'symptom': 'later_connection_like_the_adversary_not_treated_as_when_alone', 'features': {},
                        'detail': {'got': (got[0][:120],) + tuple(got[1:]), 'want': (want[0][:120],) + tuple(want[1:])}})
    ref = reference(w.scn.mode)
    cans = w.scn.features.get('_canaries')
    for idx, label in (((cans[0], 'canary'), (cans[1], 'subsequent')) if cans else ((1, 'canary'), (2, 'subsequent'))):
        t = transcript(w, idx)
        if t != ref:
            out.append({'symptom': label + '_connection_not_served_as_alone', 'features': {},
                        'detail': {'got': t, 'want': ref}})
    return out


def run(tier):
    scns = scenarios(tier)
    bound = 1 if tier == 'quick' else 2
    return netcheck.run(PROP, tier, scns, check, bound, None)


def replay(path):
    return netcheck.replay(path, scenarios('thorough'), check)
