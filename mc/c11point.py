"""One live configuration point for C11 (TLS interception), run as its own process:
real TLS origin (thread), real proxy executor (thread), real verifying TLS client."""
import os
import sys
import ssl
import json
import time
import queue
import shutil
import socket
import tempfile
import threading

PKI = None


class Origin(threading.Thread):
    """TLS origin on a loopback address; answers each request (parsed with h11) with a stamped body."""

    def __init__(self, bind_host, certname):
        super().__init__(daemon=True)
        fam = socket.AF_INET6 if ':' in bind_host else socket.AF_INET
        self.lsock = socket.socket(fam, socket.SOCK_STREAM)
        self.lsock.setsockopt(socket.SOL_SOCKET, socket.SO_REUSEADDR, 1)
        self.lsock.bind((bind_host, 0))
        self.lsock.listen(8)
        self.lsock.settimeout(0.2)
        self.port = self.lsock.getsockname()[1]
        self.ctx = ssl.SSLContext(ssl.PROTOCOL_TLS_SERVER)
        self.ctx.load_cert_chain(os.path.join(PKI, certname + '.pem'), os.path.join(PKI, 'origin-key.pem'))
        self.cert_der = ssl.PEM_cert_to_DER_cert(open(os.path.join(PKI, certname + '.pem')).read())
        self.stop = False
        self.log = []           # per connection: dict(handshake, plaintext, requests)
        self.raw_accepts = 0

    def run(self):
        import h11
        while not self.stop:
            try:
                c, _a = self.lsock.accept()
            except socket.timeout:
                continue
            except OSError:
                break
            self.raw_accepts += 1
            rec = {'handshake': None, 'plaintext': b'', 'requests': []}
            self.log.append(rec)
            c.settimeout(60)
            try:
                t = self.ctx.wrap_socket(c, server_side=True)
                rec['handshake'] = 'ok'
            except (ssl.SSLError, OSError) as e:
                rec['handshake'] = 'failed: %s' % type(e).__name__
                c.close()
                continue
            conn = h11.Connection(our_role=h11.SERVER)
            try:
                while True:
                    d = t.recv(65536)
                    if not d:
                        break
                    rec['plaintext'] += d
                    conn.receive_data(d)
                    while True:
                        ev = conn.next_event()
                        if ev is h11.NEED_DATA or ev is h11.PAUSED:
                            break
                        if isinstance(ev, h11.Request):
                            cur = {'method': bytes(ev.method), 'target': bytes(ev.target),
                                   'headers': [(bytes(n), bytes(v)) for n, v in ev.headers.raw_items()], 'body': b''}
                            rec['requests'].append(cur)
                        elif isinstance(ev, h11.Data):
                            cur['body'] += bytes(ev.data)
                        elif isinstance(ev, h11.EndOfMessage):
                            shown = cur['body'] if len(cur['body']) <= 1000 else digest(cur['body'])
                            body = b'origin|%s|%s|%s' % (cur['method'], cur['target'], shown)
                            if cur['target'] == b'/big':
                                body = big_body()
                            t.sendall(b'HTTP/1.1 200 OK\r\nContent-Length: %d\r\nX-Origin: yes\r\n\r\n' % len(body) + body)
                            conn.send(h11.Response(status_code=200, headers=[('content-length', '0')]))
                            conn.send(h11.EndOfMessage())
                            conn.start_next_cycle()
                        elif isinstance(ev, h11.ConnectionClosed):
                            raise EOFError
            except (EOFError, OSError, ssl.SSLError, h11.RemoteProtocolError) as e:
                rec['end'] = type(e).__name__
            finally:
                try:
                    t.close()
                except OSError:
                    pass
        self.lsock.close()


def digest(b):
    import hashlib
    return b'sha1:%s:%d' % (hashlib.sha1(b).hexdigest().encode(), len(b))


def big_body(n=600000):
    return b''.join(b'%07d|' % i for i in range(n // 8))


def read_until(sock, marker, timeout=60):
    sock.settimeout(timeout)
    data = b''
    while marker not in data:
        d = sock.recv(4096)
        if not d:
            break
        data += d
    return data


class BioTLS:
    """TLS client over ssl.MemoryBIO, so that the harness decides how the bytes of one TLS RECORD are cut
    into TCP segments (an SSLSocket always writes a record in one go)."""

    def __init__(self, ctx, sock, server_hostname, coalesce_with=None):
        """coalesce_with: bytes (the CONNECT head) to put in front of the ClientHello in ONE segment, i.e. a
        client that does not wait for '200 Connection established' before starting TLS."""
        self.sock = sock
        self.inc, self.out = ssl.MemoryBIO(), ssl.MemoryBIO()
        self.obj = ctx.wrap_bio(self.inc, self.out, server_hostname=server_hostname)
        self.connect_response = None
        while True:
            try:
                self.obj.do_handshake()
                self._flush()
                break
            except ssl.SSLWantReadError:
                if coalesce_with is not None:
                    sock.sendall(coalesce_with + self.out.read())
                    coalesce_with = None
                    head = read_until(sock, b'\r\n\r\n')
                    i = head.find(b'\r\n\r\n')
                    self.connect_response = head[:i + 4] if i >= 0 else head
                    if not head.startswith(b'HTTP/1.1 200'):
                        raise EOFError('CONNECT answered %r' % head[:40])
                    if i >= 0 and head[i + 4:]:
                        self.inc.write(head[i + 4:])
                        continue
                else:
                    self._flush()
                self._fill()

    def _flush(self, split=False):
        data = self.out.read()
        if not data:
            return
        if split and len(data) > 8:
            # cut inside the record: header + a few bytes first, the rest after the proxy has polled
            for a, b in ((0, 7), (7, len(data) // 2), (len(data) // 2, len(data))):
                self.sock.sendall(data[a:b])
                time.sleep(0.15)
        else:
            self.sock.sendall(data)

    def _fill(self):
        d = self.sock.recv(65536)
        if not d:
            self.inc.write_eof()
            raise EOFError('connection closed during TLS exchange')
        self.inc.write(d)

    split_default = True

    def sendall(self, data, split=None):
        self.obj.write(data)
        self._flush(self.split_default if split is None else split)

    def recv(self, n):
        while True:
            try:
                return self.obj.read(n)
            except ssl.SSLWantReadError:
                try:
                    self._fill()
                except EOFError:
                    return b''
            except ssl.SSLZeroReturnError:
                return b''

    def getpeercert(self, binary=False):
        return self.obj.getpeercert(binary)

    def close(self):
        try:
            self.obj.unwrap()
            self._flush()
        except (ssl.SSLError, OSError):
            pass


def one_connection(pt, ex, origin, host_for_connect, verify_ca, expect_cert_name):
    """Returns an observation dict for one client connection through the proxy."""
    import h11
    obs = {}
    a, b = socket.socketpair()
    ex.work_queue.put((b, ('127.0.0.1', 51000)))
    target = '%s:%d' % (host_for_connect, origin.port)
    # the Host header of the CONNECT request normally repeats the target; a client may put any name there
    hh = target if pt.get('host_header', 'same') == 'same' else 'other.test:%d' % origin.port
    connect = ('CONNECT %s HTTP/1.1\r\nHost: %s\r\n\r\n' % (target, hh)).encode()
    # opted-out tunnels may be entered by a client that sends its ClientHello right behind the CONNECT head
    early = pt['packing'] == 'early_hello' and pt['optout'] not in (False, 'bystander_only')
    try:
        if not early:
            a.sendall(connect)
            head = read_until(a, b'\r\n\r\n')
            obs['connect_response'] = head.split(b'\r\n')[0].decode('latin-1') if head else 'closed'
            if not head.startswith(b'HTTP/1.1 200'):
                obs['client_app_bytes'] = 0
                return obs
        ctx = ssl.SSLContext(ssl.PROTOCOL_TLS_CLIENT)
        ctx.load_verify_locations(verify_ca)
        ctx.check_hostname = True
        ctx.verify_mode = ssl.CERT_REQUIRED
        if pt.get('gullible_client'):
            # a client that accepts ANY certificate: whatever it is shown, nothing may flow to or from a bad origin
            ctx.check_hostname = False
            ctx.verify_mode = ssl.CERT_NONE
        a.settimeout(60)
        try:
            if early:
                t = BioTLS(ctx, a, expect_cert_name, coalesce_with=connect)
                t.split_default = False
                obs['connect_response'] = (t.connect_response or b'').split(b'\r\n')[0].decode('latin-1')
            elif pt['packing'] == 'split_record':
                t = BioTLS(ctx, a, expect_cert_name)
            else:
                t = ctx.wrap_socket(a, server_hostname=expect_cert_name)
        except (ssl.SSLError, OSError, EOFError) as e:
            obs['client_handshake'] = 'failed: %s: %s' % (type(e).__name__, str(e)[:120])
            obs['client_app_bytes'] = 0
            return obs
        obs['client_handshake'] = 'ok'
        obs['peer_cert_der'] = t.getpeercert(True).hex()
        obs['peer_cert'] = {k: v for k, v in (t.getpeercert() or {}).items() if k in ('subjectAltName', 'issuer', 'subject')}
        # inner requests
        reqs = {
            'get': [b'GET /a?x=1 HTTP/1.1\r\nHost: %s\r\nX-A: b\r\n\r\n' % target.encode()],
            'chunked': [b'POST /p HTTP/1.1\r\nHost: %s\r\nTransfer-Encoding: chunked\r\n\r\n3\r\nabc\r\n2\r\nde\r\n0\r\n\r\n' % target.encode()],
            'two': [b'GET /one HTTP/1.1\r\nHost: %s\r\n\r\n' % target.encode(),
                    b'POST /two HTTP/1.1\r\nHost: %s\r\nContent-Length: 4\r\n\r\nbody' % target.encode()],
            'big': [b'GET /big HTTP/1.1\r\nHost: %s\r\n\r\n' % target.encode(),
                    b'POST /up HTTP/1.1\r\nHost: %s\r\nContent-Length: %d\r\n\r\n' % (target.encode(), len(big_body())) + big_body()],
        }[pt['payload']]
        conn = h11.Connection(our_role=h11.CLIENT)
        bodies = []
        got = b''
        for rq in reqs:
            if pt['packing'] in ('whole', 'split_record', 'early_hello'):
                pieces = [rq]
            elif pt['packing'] == 'split_header':
                i = rq.index(b'Host:') + 3
                pieces = [rq[:i], rq[i:]]
            else:
                i = len(rq) - 2
                pieces = [rq[:i], rq[i:]]
            for pc in pieces:
                t.sendall(pc)
                time.sleep(0.02)
            if pt['payload'] == 'big':
                time.sleep(0.25)      # slow reader: the proxy's TLS writes towards us must hit back-pressure
            # read one response
            m = rq.split(b' ')[0]
            conn2 = h11.Connection(our_role=h11.CLIENT)
            conn2.send(h11.Request(method=m, target='/', headers=[('host', 'x')]))
            conn2.send(h11.EndOfMessage())
            body = b''
            done = False
            while not done:
                try:
                    d = t.recv(65536)
                except (socket.timeout, ssl.SSLError, OSError) as e:
                    obs['client_read_error'] = type(e).__name__
                    break
                if not d:
                    break
                got += d
                conn2.receive_data(d)
                while True:
                    ev = conn2.next_event()
                    if ev is h11.NEED_DATA or ev is h11.PAUSED:
                        break
                    if isinstance(ev, h11.Data):
                        body += bytes(ev.data)
                    elif isinstance(ev, h11.EndOfMessage):
                        done = True
                        break
            bodies.append((body if len(body) <= 1000 else digest(body)).decode('latin-1'))
        obs['client_app_bytes'] = len(got)
        obs['response_bodies'] = bodies
        try:
            t.close()
        except OSError:
            pass
    except (OSError, socket.timeout) as e:
        obs['client_error'] = '%s: %s' % (type(e).__name__, e)
        obs.setdefault('client_app_bytes', 0)
    finally:
        try:
            a.close()
        except OSError:
            pass
    return obs


def main():
    global PKI
    pt = json.loads(sys.argv[1])
    sys.path.insert(0, os.environ.get('VERIF_REPO', '/repo'))
    sys.path.insert(0, os.path.dirname(os.path.dirname(os.path.abspath(__file__))))
    from mc import pki
    PKI = pki.ensure()
    import logging
    tmp = tempfile.mkdtemp(prefix='verif-c11-')
    res = {'point': pt}
    try:
        real_gai = socket.getaddrinfo

        def gai(host, port, *a, **k):
            if host in ('origin.test', pki.LONG_HOST):
                return [(socket.AF_INET, socket.SOCK_STREAM, 6, '', ('127.0.0.1', port))]
            return real_gai(host, port, *a, **k)
        socket.getaddrinfo = gai
        from proxy.common.flag import FlagParser
        from proxy.core.work.fd.local import LocalFdExecutor
        from proxy.common.backports import NonBlockingQueue
        from proxy.http.proxy import HttpProxyBasePlugin

        class OptOut(HttpProxyBasePlugin):
            def do_intercept(self, request):
                return False
        args = ['--threadless', '--log-level', 'c', '--data-dir', tmp, '--ca-cert-dir', tmp + '/certs',
                '--cache-dir', tmp + '/cache',
                '--ca-key-file', PKI + '/ca-key.pem', '--ca-cert-file', PKI + '/ca-cert.pem',
                '--ca-signing-key-file', PKI + '/ca-signing-key.pem', '--ca-file', PKI + '/oca-cert.pem']
        if pt['insecure']:
            args.append('--insecure-tls-interception')

        class Bystander(HttpProxyBasePlugin):
            """Loaded next to the opting-out plugin; has no opinion (inherits do_intercept -> True)."""
        plist = {False: [], True: [OptOut], 'only': [OptOut], 'first': [OptOut, Bystander],
                 'last': [Bystander, OptOut], 'bystander_only': [Bystander]}[pt['optout']]
        flags = FlagParser.initialize(args, plugins=plist)
        res['plugin_order'] = [c.__name__ for c in flags.plugins.get(b'HttpProxyBasePlugin', [])]
        logging.disable(logging.CRITICAL)
        host = pki.LONG_HOST if pt['host'] == 'long' else pt['host']
        bind = '::1' if host == '[::1]' else '127.0.0.1'
        origin = Origin(bind, pt['cert'])
        origin.start()
        ex = LocalFdExecutor(iid='1', work_queue=NonBlockingQueue(), flags=flags, event_queue=None)
        th = threading.Thread(target=ex.run, daemon=True)
        th.start()
        name_for_cert = host.strip('[]')
        opted = pt['optout'] not in (False, 'bystander_only')
        verify_ca = PKI + ('/oca-cert.pem' if opted else '/ca-cert.pem')
        conns = []
        n_conn = (3 if pt.get('gullible_client') else 2) if pt['cache'] == 'warm' else 1
        for i in range(n_conn):
            conns.append(one_connection(pt, ex, origin, host, verify_ca, name_for_cert))
        # warm points: a SECOND host that reaches the same origin (same origin certificate, valid for
        # both names) must get its own leaf naming that second host
        if pt['cache'] == 'warm' and host in ('origin.test', '127.0.0.1'):
            alt = '127.0.0.1' if host == 'origin.test' else 'origin.test'
            c = one_connection(pt, ex, origin, alt, verify_ca, alt)
            c['alt_host'] = alt
            conns.append(c)
        res['connections'] = conns
        time.sleep(0.1)
        ex.work_queue.put(False)
        th.join(5)
        res['executor_alive_after_stop'] = th.is_alive()
        origin.stop = True
        origin.join(3)
        res['origin'] = [{'handshake': r['handshake'], 'plaintext_len': len(r['plaintext']),
                          'requests': [{'method': q['method'].decode(), 'target': q['target'].decode('latin-1'),
                                        'body': (q['body'] if len(q['body']) <= 1000 else digest(q['body'])).decode('latin-1'),
                                        'headers': [[n.decode('latin-1'), v.decode('latin-1')] for n, v in q['headers']]}
                                       for q in r['requests']]} for r in origin.log]
        res['origin_cert_der'] = origin.cert_der.hex()
        res['generated_files'] = sorted(os.listdir(tmp + '/certs')) if os.path.isdir(tmp + '/certs') else []
    except BaseException as e:  # noqa
        import traceback
        res['exception'] = '%s: %s' % (type(e).__name__, e)
        res['traceback'] = traceback.format_exc()[-1500:]
    finally:
        shutil.rmtree(tmp, ignore_errors=True)
    print('RESULT ' + json.dumps(res))
    sys.stdout.flush()
    os._exit(0)


if __name__ == '__main__':
    main()
