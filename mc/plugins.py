"""Harness-side plugin classes (loaded through the real FlagParser / Plugins.load)."""
from . import common

_cache = {}


def web_stamp():
    """Web route plugin answering `web:<path>` for /w/..."""
    if 'web' not in _cache:
        common.bind_repo()
        from proxy.http.server import HttpWebServerBasePlugin, httpProtocolTypes
        from proxy.http.responses import okResponse

        class VerifWebStamp(HttpWebServerBasePlugin):
            def routes(self):
                return [(httpProtocolTypes.HTTP, r'/w/')]

            def handle_request(self, request):
                self.client.queue(okResponse(content=b'web:' + (request.path or b''), compress=False))
        _cache['web'] = VerifWebStamp
    return _cache['web']


def reverse(routes, dynamic=None, name='VerifRev'):
    """ReverseProxyBasePlugin with the given static `routes` [(regex, [urls])] and
    `dynamic` {regex: callable(request)->Url|memoryview}."""
    key = ('rev', name)
    if key not in _cache:
        common.bind_repo()
        from proxy.http.server import ReverseProxyBasePlugin
        dyn = dict(dynamic or {})
        rts = list(routes)

        class _Rev(ReverseProxyBasePlugin):
            def routes(self):
                return list(rts) + list(dyn.keys())

            def handle_route(self, request, pattern):
                return dyn[pattern.pattern](request)
        _Rev.__name__ = _Rev.__qualname__ = name
        _cache[key] = _Rev
    return _cache[key]
