"""Harness-side plugin classes (loaded through the real FlagParser / Plugins.load)."""
from . import common

_cache = {}


def web_stamp():
    """Web route plugin answering `web:<path>` for /w/..."""
    if 'web' not in _cache:
        common.bind_repo()
        from proxy.http.server import HttpWebServerBasePlugin, httpProtocolTypes
        from proxy.http.responses import okResponse

        class VerifWebStamp(HttpWebServerBasePlugin):
            def routes(self):
                return [(httpProtocolTypes.HTTP, r'/w/')]

            def handle_request(self, request):
                self.client.queue(okResponse(content=b'web:' + (request.path or b''), compress=False))
        _cache['web'] = VerifWebStamp
    return _cache['web']


def reverse(routes, dynamic=None, name='VerifRev'):
    """ReverseProxyBasePlugin with the given static `routes` [(regex, [urls])] and
    `dynamic` {regex: callable(request)->Url|memoryview}."""
    key = ('rev', name)
    if key not in _cache:
        common.bind_repo()
        from proxy.http.server import ReverseProxyBasePlugin
        dyn = dict(dynamic or {})
        rts = list(routes)

        class _Rev(ReverseProxyBasePlugin):
            def routes(self):
                # entries of `routes` may be static tuples or dynamic regex strings (order preserved);
                # dynamic regexes not listed there are appended
                listed = [r for r in rts if isinstance(r, str)]
                return list(rts) + [k for k in dyn.keys() if k not in listed]

            def handle_route(self, request, pattern):
                return dyn[pattern.pattern](request)
        _Rev.__name__ = _Rev.__qualname__ = name
        _cache[key] = _Rev
    return _cache[key]


def recorder(name, beh=None):
    """Recording HttpProxyBasePlugin.  `beh`: {hook: (action, arg)} with action in
    pass | modify | drop | reject.  Every call is appended to World.current.rec."""
    beh = dict(beh or {})
    key = ('rec', name, tuple(sorted((k, repr(v)) for k, v in beh.items())))
    if key in _cache:
        return _cache[key]
    common.bind_repo()
    from proxy.http.proxy import HttpProxyBasePlugin
    from proxy.http.exception import HttpRequestRejected
    from . import netmc

    def rec(hook, info=None):
        w = netmc.World.current
        if w is not None:
            if not hasattr(w, 'rec'):
                w.rec = []
            w.rec.append((name, hook, info))

    def tags(request):
        if request is None or not request.headers:
            return ()
        return tuple(sorted(v[1] for k, v in request.headers.items() if k.startswith(b'x-tag-')))

    class Rec(HttpProxyBasePlugin):
        def _req(self, hook, request):
            rec(hook, (request.method, request.path, tags(request)))
            act = beh.get(hook, ('pass', None))
            if act[0] == 'modify':
                request.add_header(b'X-Tag-' + name.encode(), act[1] or name.encode())
                return request
            if act[0] == 'replace':
                # a plugin may also hand back a NEW request object instead of mutating its argument
                from proxy.http.parser import HttpParser
                fresh = HttpParser.request(request.build(for_proxy=bool(request.host) and not request.is_https_tunnel))
                fresh.add_header(b'X-Tag-' + name.encode(), act[1] or name.encode())
                return fresh
            if act[0] == 'drop':
                return None
            if act[0] == 'drop_path':
                # drops only the request for one path
                return None if (request.path or b'').split(b'?')[0].endswith(act[1]) else request
            if act[0] == 'reject_path':
                # turns down only the request for one path
                if (request.path or b'').split(b'?')[0].endswith(act[1][0]):
                    raise HttpRequestRejected(status_code=act[1][1], reason=b'Rejected', body=act[1][2])
                return request
            if act[0] == 'reject':
                status, body = act[1]
                raise HttpRequestRejected(status_code=status, reason=b'Rejected', body=body)
            return request

        def before_upstream_connection(self, request):
            return self._req('before_upstream_connection', request)

        def handle_client_request(self, request):
            return self._req('handle_client_request', request)

        def handle_upstream_chunk(self, chunk):
            rec('handle_upstream_chunk', bytes(chunk))
            act = beh.get('handle_upstream_chunk', ('pass', None))
            if act[0] == 'modify':
                return memoryview(bytes(chunk).replace(act[1][0], act[1][1]))
            if act[0] == 'drop':
                return None
            return chunk

        def handle_client_data(self, raw):
            rec('handle_client_data', bytes(raw))
            act = beh.get('handle_client_data', ('pass', None))
            if act[0] == 'drop':
                return None
            return raw

        def on_upstream_connection_close(self):
            rec('on_upstream_connection_close', None)

        def do_intercept(self, request):
            # consulted only when TLS interception is configured; recorded only on demand (beh has the key)
            if 'do_intercept' in beh:
                rec('do_intercept', (request.method, request.path, tags(request)))
                if beh['do_intercept'][0] == 'drop':
                    return False
            return True

        def on_access_log(self, context):
            rec('on_access_log', tuple(sorted(k for k in context if k.startswith('tag_'))))
            act = beh.get('on_access_log', ('pass', None))
            if act[0] == 'modify':
                context = dict(context)
                context['tag_' + name] = 1
                return context
            if act[0] == 'drop':
                return None
            return context

        def resolve_dns(self, host, port):
            rec('resolve_dns', (host, port))
            act = beh.get('resolve_dns', ('pass', None))
            if act[0] == 'modify':
                return act[1], None
            return None, None
    Rec.__name__ = Rec.__qualname__ = 'VerifRec_%s_%d' % (name, len(_cache))
    _cache[key] = Rec
    return Rec
