"""Structured generator of HTTP/1.x messages with ground truth known by construction.

A message is built from a spec; `raw` is its wire form, `end` the offset one past the
last byte of the message proper, `trailing` what follows.  Nothing here imports proxy.
"""
import itertools

CRLF = b'\r\n'


class Msg:
    __slots__ = ('kind', 'method', 'target', 'version', 'code', 'reason', 'headers',
                 'framing', 'body', 'layout', 'raw', 'end', 'trailing', 'features', 'chunk_wire')

    def __init__(self, **kw):
        for k in self.__slots__:
            setattr(self, k, kw.get(k))

    def describe(self):
        return {'kind': self.kind, 'raw': self.raw, 'end': self.end, 'features': self.features}


def compositions(n):
    """All ordered ways of writing n as a sum of positive ints."""
    if n == 0:
        yield ()
        return
    for first in range(1, n + 1):
        for rest in compositions(n - first):
            yield (first,) + rest


def chunk_encode(body, layout, hexcase='lower', lead_zero=False, ext=b'', trailers=()):
    """Encode body with the given chunk-size layout.  Returns wire bytes."""
    out = []
    pos = 0
    for sz in layout:
        h = ('%x' % sz) if hexcase == 'lower' else ('%X' % sz)
        if lead_zero:
            h = '0' + h
        out.append(h.encode() + ext + CRLF + body[pos:pos + sz] + CRLF)
        pos += sz
    assert pos == len(body)
    last = b'00' if lead_zero else b'0'
    out.append(last + ext + CRLF)
    for t in trailers:
        out.append(t + CRLF)
    out.append(CRLF)
    return b''.join(out)


def build(kind, start, headers, framing, body=b'', layout=None, trailing=b'',
          hexcase='lower', lead_zero=False, ext=b'', trailers=(), features=None, framing_case='canonical', te_value=b'chunked'):
    """start: (method, target, version) or (version, code, reason|None).
    headers: list of (name, value, rawline) -- rawline may carry odd spacing/casing."""
    feats = dict(features or {})
    lines = []
    if kind == 'request':
        method, target, version = start
        lines.append(method + b' ' + target + b' ' + version)
        code = reason = None
    else:
        version, code, reason = start
        method = target = None
        lines.append(version + b' ' + code + (b' ' + reason if reason is not None else b''))
    hs = list(headers)
    wire_body = b''
    def fc(name):
        return {'canonical': name, 'lower': name.lower(), 'upper': name.upper(),
                'mixed': name.swapcase()}[framing_case]
    if framing == 'cl':
        hs.append((fc(b'Content-Length'), str(len(body)).encode(), fc(b'Content-Length') + b': ' + str(len(body)).encode()))
        wire_body = body
    elif framing == 'chunked':
        hs.append((fc(b'Transfer-Encoding'), te_value, fc(b'Transfer-Encoding') + b': ' + te_value))
        if layout is None:
            layout = (len(body),) if body else ()
        wire_body = chunk_encode(body, layout, hexcase, lead_zero, ext, trailers)
    for (_n, _v, rawline) in hs:
        lines.append(rawline)
    head = CRLF.join(lines) + CRLF + CRLF
    raw = head + wire_body
    feats.update({
        'kind': kind, 'framing': framing,
        'body_len': len(body), 'n_headers': len(headers),
        'chunk_ext': bool(ext), 'chunk_trailers': bool(trailers),
        'hex_upper': hexcase != 'lower', 'lead_zero': lead_zero,
        'n_chunks': len(layout) if layout is not None else 0,
        'trailing': bool(trailing), 'framing_case': framing_case, 'te_value_case': 'lower' if te_value == b'chunked' else 'other',
    })
    return Msg(kind=kind, method=method, target=target, version=version, code=code, reason=reason,
               headers=[(n, v) for (n, v, _r) in hs], framing=framing, body=body, layout=layout,
               raw=raw + trailing, end=len(raw), trailing=trailing, features=feats,
               chunk_wire=wire_body if framing == 'chunked' else None)


HEADER_ALPHABET = [
    (b'Host', b'h', b'Host: h'),
    (b'x-lower', b'v1', b'x-lower: v1'),
    (b'X-MiXed-Case', b'a b', b'X-MiXed-Case:   a b  '),
    (b'X-Empty', b'', b'X-Empty:'),
    (b'X-Colon', b'a:b', b'X-Colon: a:b'),
    (b'Accept', b'*/*', b'Accept:*/*'),
]

BODIES = [b'', b'a', b'abc', b'a\r\nb', b'0\r\n\r\n', b'\x00\xff\r', b'5\r\nab']
TRAILINGS = [b'', b'G', b'\r\n', b'GET / HTTP/1.1\r\n\r\n']

REQ_STARTS = [
    (b'GET', b'/', b'HTTP/1.1'),
    (b'POST', b'http://h/p?q=1', b'HTTP/1.1'),
    (b'CONNECT', b'h:443', b'HTTP/1.1'),
    (b'GET', b'http://h:8080/', b'HTTP/1.0'),
]
RESP_STARTS = [
    (b'HTTP/1.1', b'200', b'OK'),
    (b'HTTP/1.0', b'404', b'Not Found'),
    (b'HTTP/1.1', b'200', None),
]


def header_sets(maxn):
    yield []
    for n in range(1, maxn + 1):
        for combo in itertools.combinations(HEADER_ALPHABET, n):
            yield list(combo)


def corpus(tier):
    """Small-scope exhaustive product, simplest first.  Yields Msg objects.

    quick: a pairwise-ish slice; thorough: the full product."""
    thorough = tier == 'thorough'
    hsets = list(header_sets(2 if thorough else 1))
    if not thorough:
        hsets = [[], [HEADER_ALPHABET[0]], [HEADER_ALPHABET[2]], [HEADER_ALPHABET[3], HEADER_ALPHABET[1]]]
    bodies = BODIES if thorough else BODIES[:5] + BODIES[5:6]
    out = []

    def starts(kind):
        return REQ_STARTS if kind == 'request' else RESP_STARTS

    for kind in ('request', 'response'):
        for si, start in enumerate(starts(kind)):
            for hi, hs in enumerate(hsets):
                # body-less, no trailing bytes
                if kind == 'request' or not hs:
                    if kind == 'request' or hs == []:
                        out.append(build(kind, start, hs, 'none', features={'class': 'bodyless'}))
                if not thorough and (si + hi) % 2 and si > 0:
                    continue
                for body in bodies:
                    for trailing in TRAILINGS:
                        if not thorough and trailing in (TRAILINGS[2],) and body not in (b'', b'abc'):
                            continue
                        # Content-Length (a zero length with trailing bytes is its own class)
                        cls = 'cl' if body else 'cl_zero'
                        out.append(build(kind, start, hs, 'cl', body, trailing=trailing,
                                         features={'class': cls}))
                        # chunked: all compositions for |body| <= 4 (thorough) / <= 3 (quick)
                        lim = 4 if thorough else 3
                        layouts = list(compositions(len(body))) if len(body) <= lim else \
                            [(len(body),), (1, len(body) - 1), tuple([1] * len(body))]
                        for lay in layouts:
                            out.append(build(kind, start, hs, 'chunked', body, lay, trailing,
                                             features={'class': 'chunked'}))
                        if hi == 0 or thorough:
                            lay = layouts[-1]
                            out.append(build(kind, start, hs, 'chunked', body, lay, trailing,
                                             hexcase='upper', lead_zero=True,
                                             features={'class': 'chunked_hexforms'}))
                            big = body * 3 + b'0123456789abcdef'
                            out.append(build(kind, start, hs, 'chunked', big, (len(big),), trailing,
                                             hexcase='upper', features={'class': 'chunked_hexforms'}))
                            out.append(build(kind, start, hs, 'chunked', body, lay, trailing,
                                             ext=b';x=1', features={'class': 'chunked_ext'}))
                            out.append(build(kind, start, hs, 'chunked', body, lay, trailing,
                                             trailers=(b'X-T: 1',), features={'class': 'chunked_trailers'}))
    # framing header names in other casings (header names are case-insensitive)
    for kind in ('request', 'response'):
        start = starts(kind)[0]
        for fcase in ('lower', 'upper', 'mixed'):
            for body in (b'', b'abc'):
                for trailing in (b'', b'G'):
                    out.append(build(kind, start, hsets[1], 'cl', body, trailing=trailing, framing_case=fcase,
                                     features={'class': 'cl' if body else 'cl_zero'}))
                    out.append(build(kind, start, hsets[1], 'chunked', body, (len(body),) if body else (), trailing,
                                     framing_case=fcase, features={'class': 'chunked'}))
    # obsolete line folding (RFC 7230 3.2.4): a field value continued on a line that starts with SP / HTAB.  What
    # the parser makes of it is not judged here (feature obs_fold); that it makes the SAME of it however the
    # bytes are cut, is
    fold = (b'X-Long', b'first part second part', b'X-Long: first part\r\n second part')
    fold2 = (b'X-Tabbed', b'a b', b'X-Tabbed: a\r\n\tb')
    for kind in ('request', 'response'):
        start = starts(kind)[0]
        for hs in ([HEADER_ALPHABET[0], fold], [fold, HEADER_ALPHABET[1]], [HEADER_ALPHABET[0], fold2, fold]):
            out.append(build(kind, start, hs, 'cl', b'abc', trailing=b'G', features={'class': 'cl', 'obs_fold': True}))
            out.append(build(kind, start, hs, 'chunked', b'abc', (1, 2), b'', features={'class': 'chunked', 'obs_fold': True}))
    # transfer-coding names are case-insensitive too
    for kind in ('request', 'response'):
        start = starts(kind)[0]
        # ... and chunked may be the LAST of several codings ("gzip, chunked": the framing is chunked all the same)
        for tev in (b'Chunked', b'CHUNKED', b'gzip, chunked', b'gzip,Chunked'):
            for body in (b'', b'abc'):
                for trailing in (b'', b'G'):
                    out.append(build(kind, start, hsets[1], 'chunked', body, (1, len(body) - 1) if body else (), trailing,
                                     te_value=tev, features={'class': 'chunked'}))
    # de-duplicate by raw bytes + kind, keep first (simplest) occurrence
    seen = set()
    uniq = []
    for m in out:
        k = (m.kind, m.raw)
        if k not in seen:
            seen.add(k)
            uniq.append(m)
    return uniq


def chunk_streams(tier):
    """Valid chunked streams for the decoder alone: (wire, body, end, trailing, features)."""
    out = []
    thorough = tier == 'thorough'
    for body in BODIES + ([b'abcd', b'\r\n\r\n'] if thorough else []):
        lim = 4 if thorough else 3
        layouts = list(compositions(len(body))) if len(body) <= lim else [(len(body),), tuple([1] * len(body))]
        for lay in layouts:
            for trailing in TRAILINGS:
                variants = [dict(), dict(hexcase='upper', lead_zero=True)]
                variants += [dict(ext=b';x=1'), dict(trailers=(b'X-T: 1',))]
                for v in variants:
                    wire = chunk_encode(body, lay, **v)
                    cls = 'plain'
                    if v.get('ext'):
                        cls = 'ext'
                    elif v.get('trailers'):
                        cls = 'trailers'
                    elif v.get('lead_zero'):
                        cls = 'hexforms'
                    out.append((wire + trailing, body, len(wire), trailing,
                                {'class': cls, 'body_len': len(body), 'n_chunks': len(lay),
                                 'trailing': bool(trailing), 'kind': 'chunk'}))
    seen = set()
    uniq = []
    for t in out:
        if t[0] not in seen:
            seen.add(t[0])
            uniq.append(t)
    return uniq
